//! Shared machinery of the glam-rs property checks: CLI, tallies, proptest glue,
//! parallel job runner, evidence partials and replay files. No glam dependency.
pub mod lattice;
pub mod num;

use proptest::strategy::Strategy;
use proptest::test_runner::{Config, RngAlgorithm, RngSeed, TestCaseError, TestError, TestRunner};
use serde_json::{json, Value};
use std::collections::BTreeMap;
use std::sync::atomic::{AtomicUsize, Ordering};
use std::sync::Mutex;

#[derive(Clone, Copy, PartialEq, Eq, Debug)]
pub enum Tier {
    Quick,
    Thorough,
}

#[derive(Clone, Debug)]
pub struct Args {
    pub tier: Tier,
    pub seed: u64,
    pub out: String,
    pub replay: Option<String>,
    /// name of the whole-build configuration this binary was compiled in (stable, fma, chk, nightly, asan ...)
    pub build: String,
    /// only run sub-checks whose name contains this
    pub only: Option<String>,
    /// signatures of known findings that are tolerated (counted) so the search continues behind them
    pub known: Vec<String>,
    /// volume multiplier (the driver uses < 1 for secondary builds)
    pub scale: f64,
    pub threads: usize,
}

impl Args {
    pub fn parse() -> Args {
        let mut a = Args {
            tier: Tier::Quick,
            seed: 0,
            out: String::new(),
            replay: None,
            build: "stable".into(),
            only: None,
            known: vec![],
            scale: 1.0,
            threads: std::thread::available_parallelism().map(|n| n.get()).unwrap_or(4),
        };
        let v: Vec<String> = std::env::args().skip(1).collect();
        let mut i = 0;
        while i < v.len() {
            let nxt = |i: usize| v.get(i + 1).cloned().unwrap_or_else(|| panic!("missing value for {}", v[i]));
            match v[i].as_str() {
                "--tier" => {
                    a.tier = if nxt(i) == "thorough" { Tier::Thorough } else { Tier::Quick };
                    i += 1
                }
                "--seed" => {
                    a.seed = nxt(i).parse().expect("seed");
                    i += 1
                }
                "--out" => {
                    a.out = nxt(i);
                    i += 1
                }
                "--replay" => {
                    a.replay = Some(nxt(i));
                    i += 1
                }
                "--build" => {
                    a.build = nxt(i);
                    i += 1
                }
                "--only" => {
                    a.only = Some(nxt(i));
                    i += 1
                }
                "--known" => {
                    a.known = nxt(i).split(',').filter(|s| !s.is_empty()).map(|s| s.to_string()).collect();
                    i += 1
                }
                "--scale" => {
                    a.scale = nxt(i).parse().expect("scale");
                    i += 1
                }
                "--threads" => {
                    a.threads = nxt(i).parse().expect("threads");
                    i += 1
                }
                x => panic!("unknown argument {x}"),
            }
            i += 1;
        }
        a
    }
    /// case count for this tier: `q` in quick, `q * mult` in thorough, both scaled by --scale.
    pub fn cases(&self, q: u64, mult: u64) -> u64 {
        let n = match self.tier {
            Tier::Quick => q,
            Tier::Thorough => q * mult,
        };
        ((n as f64 * self.scale) as u64).max(16)
    }
}

/// A failing case as the check function reports it.
#[derive(Clone, Debug)]
pub struct Fail {
    /// stable signature (what kind of wrong) used to match known findings
    pub sig: String,
    pub op: String,
    pub msg: String,
}

impl Fail {
    pub fn new(sig: impl Into<String>, op: impl Into<String>, msg: impl Into<String>) -> Fail {
        Fail { sig: sig.into(), op: op.into(), msg: msg.into() }
    }
}

#[derive(Clone, Debug)]
pub struct Failure {
    pub sub: String,
    pub fail: Fail,
    pub words: Vec<u64>,
    pub original_words: Vec<u64>,
}

pub const HASH_CAP: usize = 1 << 22;

/// Per-sub-check counters. Everything that ends up in the evidence is measured here.
#[derive(Default, Debug)]
pub struct Tally {
    pub evaluations: u64,
    pub nontrivial: u64,
    /// distinct non-trivial cases counted by enumeration (indices are distinct by construction)
    pub enumerated_nontrivial: u64,
    hashes: Vec<u64>,
    pub hash_capped: bool,
    pub classes: BTreeMap<String, u64>,
    pub headroom: BTreeMap<String, f64>,
    pub samples: Vec<Value>,
    pub known_hits: BTreeMap<String, (u64, Value)>,
    pub notes: BTreeMap<String, Value>,
    pub exhaustive: bool,
    pub frozen: bool,
}

pub fn fnv(words: &[u64]) -> u64 {
    let mut h: u64 = 0xcbf29ce484222325;
    for w in words {
        for b in w.to_le_bytes() {
            h ^= b as u64;
            h = h.wrapping_mul(0x100000001b3);
        }
    }
    h
}

pub fn hash_str(s: &str) -> u64 {
    let mut h: u64 = 0xcbf29ce484222325;
    for b in s.bytes() {
        h ^= b as u64;
        h = h.wrapping_mul(0x100000001b3);
    }
    h
}

pub fn mix(a: u64, b: u64) -> u64 {
    let mut x = a ^ b.wrapping_mul(0x9E3779B97F4A7C15);
    x ^= x >> 30;
    x = x.wrapping_mul(0xBF58476D1CE4E5B9);
    x ^= x >> 27;
    x = x.wrapping_mul(0x94D049BB133111EB);
    x ^ (x >> 31)
}

impl Tally {
    #[inline]
    pub fn eval(&mut self, n: u64) {
        if !self.frozen {
            self.evaluations += n;
        }
    }
    /// a non-trivial case identified by a hash of (type, op, operand bits)
    #[inline]
    pub fn nontrivial(&mut self, h: u64) {
        if self.frozen {
            return;
        }
        self.nontrivial += 1;
        if self.hashes.len() < HASH_CAP {
            self.hashes.push(h);
        } else {
            self.hash_capped = true;
        }
    }
    /// non-trivial cases from an enumeration whose indices are distinct by construction
    #[inline]
    pub fn nontrivial_enum(&mut self, n: u64) {
        if !self.frozen {
            self.nontrivial += n;
            self.enumerated_nontrivial += n;
        }
    }
    #[inline]
    pub fn class(&mut self, c: &str) {
        if !self.frozen {
            *self.classes.entry(c.to_string()).or_insert(0) += 1;
        }
    }
    #[inline]
    pub fn class_n(&mut self, c: &str, n: u64) {
        if !self.frozen {
            *self.classes.entry(c.to_string()).or_insert(0) += n;
        }
    }
    /// record error/tolerance ratio of a tolerance-based comparison
    #[inline]
    pub fn ratio(&mut self, key: &str, r: f64) {
        if self.frozen || !(r >= 0.0) {
            return;
        }
        match self.headroom.get_mut(key) {
            Some(v) => {
                if r > *v {
                    *v = r
                }
            }
            None => {
                self.headroom.insert(key.to_string(), r);
            }
        }
    }
    pub fn want_sample(&self) -> bool {
        !self.frozen && self.samples.len() < 6
    }
    pub fn sample(&mut self, v: Value) {
        if self.want_sample() {
            self.samples.push(v);
        }
    }
    pub fn known_hit(&mut self, sig: &str, example: impl FnOnce() -> Value) {
        if self.frozen {
            return;
        }
        let e = self.known_hits.entry(sig.to_string()).or_insert_with(|| (0, example()));
        e.0 += 1;
    }
    pub fn distinct(&mut self) -> u64 {
        self.hashes.sort_unstable();
        self.hashes.dedup();
        self.hashes.len() as u64 + self.enumerated_nontrivial
    }
    pub fn merge(&mut self, mut o: Tally) {
        self.evaluations += o.evaluations;
        self.nontrivial += o.nontrivial;
        self.enumerated_nontrivial += o.enumerated_nontrivial;
        self.hash_capped |= o.hash_capped;
        let room = HASH_CAP.saturating_sub(self.hashes.len());
        if o.hashes.len() > room {
            o.hashes.truncate(room);
            self.hash_capped = true;
        }
        self.hashes.extend(o.hashes);
        for (k, v) in o.classes {
            *self.classes.entry(k).or_insert(0) += v;
        }
        for (k, v) in o.headroom {
            let e = self.headroom.entry(k).or_insert(0.0);
            if v > *e {
                *e = v
            }
        }
        for s in o.samples {
            if self.samples.len() < 6 {
                self.samples.push(s)
            }
        }
        for (k, (n, ex)) in o.known_hits {
            let e = self.known_hits.entry(k).or_insert((0, ex));
            e.0 += n;
        }
        for (k, v) in o.notes {
            self.notes.insert(k, v);
        }
        self.exhaustive &= o.exhaustive;
    }
}

pub type CheckFn<'a> = dyn Fn(&[u64], &mut Tally) -> Result<(), Fail> + Sync + 'a;

/// What one job hands back.
pub struct JobOut {
    pub tally: Tally,
    pub failures: Vec<Failure>,
}

pub struct Env<'a> {
    pub args: &'a Args,
    pub sub: &'a str,
    pub shard: u32,
    pub shards: u32,
    /// volume divisor of this sub-check (second-pass variants run a fraction of the generated volume)
    pub div: u32,
    pub tally: Tally,
    pub failures: Vec<Failure>,
}

impl<'a> Env<'a> {
    pub fn seed_for(&self, salt: &str) -> u64 {
        mix(mix(self.args.seed, hash_str(self.sub)), mix(hash_str(salt), self.shard as u64))
    }
    pub fn cases(&self, q: u64, mult: u64) -> u32 {
        let n = self.args.cases(q, mult);
        let n = if self.div > 1 { (n / self.div as u64).max(n.min(64)) } else { n };
        ((n + self.shards as u64 - 1) / self.shards as u64).min(u32::MAX as u64 / 2) as u32
    }
    fn tolerate(&mut self, f: &Fail, words: &[u64]) -> bool {
        if self.args.known.iter().any(|k| *k == f.sig) {
            let w = words.to_vec();
            let (op, msg) = (f.op.clone(), f.msg.clone());
            self.tally.known_hit(&f.sig, || json!({"op": op, "words": hexwords(&w), "msg": msg}));
            true
        } else {
            false
        }
    }

    /// Drive `check` with proptest over `strat`. Stops at the first failure that is not a tolerated
    /// known finding, shrinks it and records the minimal case.
    pub fn prop<S>(&mut self, salt: &str, cases: u32, strat: S, check: &CheckFn)
    where
        S: Strategy<Value = Vec<u64>>,
    {
        if !self.failures.is_empty() {
            return;
        }
        let seed = self.seed_for(salt);
        let mut sb = [0u8; 32];
        for i in 0..4 {
            sb[i * 8..i * 8 + 8].copy_from_slice(&mix(seed, i as u64).to_le_bytes());
        }
        let cfg = Config {
            cases,
            max_local_rejects: 65536,
            max_global_rejects: 65536,
            failure_persistence: None,
            max_shrink_iters: 4096,
            max_shrink_time: 0,
            verbose: 0,
            rng_algorithm: RngAlgorithm::ChaCha,
            rng_seed: RngSeed::Fixed(seed),
            source_file: None,
            test_name: None,
            ..Config::default()
        };
        let _ = sb;
        let mut runner = TestRunner::new(cfg);
        // state shared with the closure
        let st = Mutex::new((std::mem::take(&mut self.tally), None::<(Vec<u64>, Fail)>, Vec::<(Vec<u64>, Fail)>::new()));
        let known = &self.args.known;
        let sub_name: &str = self.sub;
        let res = runner.run(&strat, |words| {
            let mut g = st.lock().unwrap();
            let (tally, first, _tol) = &mut *g;
            set_crumb(sub_name, &words);
            let r = std::panic::catch_unwind(std::panic::AssertUnwindSafe(|| check(&words, tally)));
            let r = match r {
                Ok(r) => r,
                Err(p) => Err(Fail::new("harness-panic", "?", panic_msg(&p))),
            };
            match r {
                Ok(()) => Ok(()),
                Err(f) => {
                    if known.iter().any(|k| *k == f.sig) {
                        let w = words.clone();
                        let (op, msg) = (f.op.clone(), f.msg.clone());
                        tally.known_hit(&f.sig, || json!({"op": op, "words": hexwords(&w), "msg": msg}));
                        return Ok(());
                    }
                    if first.is_none() {
                        *first = Some((words.clone(), f.clone()));
                        tally.frozen = true;
                    }
                    Err(TestCaseError::fail(f.sig.clone()))
                }
            }
        });
        let (mut tally, first, _) = st.into_inner().unwrap();
        tally.frozen = false;
        self.tally = tally;
        if let Err(e) = res {
            match e {
                TestError::Fail(_, minimal) => {
                    // re-run the minimal case to get its message
                    let mut scratch = Tally::default();
                    let r = std::panic::catch_unwind(std::panic::AssertUnwindSafe(|| check(&minimal, &mut scratch)));
                    let fail = match r {
                        Ok(Err(f)) => f,
                        Ok(Ok(())) => first.as_ref().map(|x| x.1.clone()).unwrap_or(Fail::new("flaky", "?", "minimal case passed on re-run")),
                        Err(p) => Fail::new("harness-panic", "?", panic_msg(&p)),
                    };
                    let (ow, of) = first.unwrap_or((minimal.clone(), fail.clone()));
                    // if shrinking wandered to a tolerated signature, report the original instead
                    let (w, f) = if self.args.known.iter().any(|k| *k == fail.sig) { (ow.clone(), of) } else { (minimal, fail) };
                    self.failures.push(Failure { sub: self.sub.to_string(), fail: f, words: w, original_words: ow });
                }
                TestError::Abort(r) => {
                    self.tally.notes.insert(format!("abort/{salt}"), json!(r.to_string()));
                }
            }
        }
    }

    /// Direct (enumerated) evaluation of one case; records the failure (no shrinking: enumerations
    /// report the first failing index).
    #[inline]
    pub fn direct(&mut self, words: &[u64], check: &CheckFn) -> bool {
        if !self.failures.is_empty() {
            return false;
        }
        set_crumb(self.sub, words);
        match check(words, &mut self.tally) {
            Ok(()) => true,
            Err(f) => {
                if self.tolerate(&f, words) {
                    return true;
                }
                self.failures.push(Failure { sub: self.sub.to_string(), fail: f, words: words.to_vec(), original_words: words.to_vec() });
                false
            }
        }
    }
    pub fn failed(&self) -> bool {
        !self.failures.is_empty()
    }
    /// this shard's slice of 0..n
    pub fn my_range(&self, n: u64) -> std::ops::Range<u64> {
        let per = (n + self.shards as u64 - 1) / self.shards as u64;
        let lo = (per * self.shard as u64).min(n);
        let hi = (lo + per).min(n);
        lo..hi
    }
}

pub fn panic_msg(p: &Box<dyn std::any::Any + Send>) -> String {
    if let Some(s) = p.downcast_ref::<&str>() {
        s.to_string()
    } else if let Some(s) = p.downcast_ref::<String>() {
        s.clone()
    } else {
        "<non-string panic>".into()
    }
}

pub fn hexwords(w: &[u64]) -> Vec<String> {
    w.iter().map(|x| format!("0x{x:x}")).collect()
}

/// One registered sub-check.
pub struct SubCheck<'a> {
    pub name: String,
    pub shards: u32,
    /// generation + checking
    pub run: Box<dyn Fn(&mut Env) + Sync + 'a>,
    /// the bare check function on explicit words (used for --replay)
    pub check: Box<CheckFn<'a>>,
    /// divisor applied to every generated volume of this sub-check (1 = full)
    pub div: u32,
}

impl<'a> SubCheck<'a> {
    pub fn new(
        name: impl Into<String>,
        shards: u32,
        run: impl Fn(&mut Env) + Sync + 'a,
        check: impl Fn(&[u64], &mut Tally) -> Result<(), Fail> + Sync + 'a,
    ) -> Self {
        SubCheck { name: name.into(), shards, run: Box::new(run), check: Box::new(check), div: 1 }
    }
    /// run a fraction 1/n of the generated volume (fixed enumerations are not affected)
    pub fn with_div(mut self, n: u32) -> Self {
        self.div = n.max(1);
        self
    }
}

pub fn silence_panics() {
    std::panic::set_hook(Box::new(|_| {}));
}

// ---- breadcrumb for hard crashes: if safe glam code makes the process die with SIGSEGV / SIGBUS / SIGILL / SIGFPE,
// the handler prints which sub-check and which case words were being evaluated on the faulting thread, so that the
// driver can still write a replay file.
thread_local! {
    static CRUMB: std::cell::Cell<(*const u8, usize, *const u64, usize)> = const { std::cell::Cell::new((std::ptr::null(), 0, std::ptr::null(), 0)) };
}
#[inline]
pub fn set_crumb(sub: &str, words: &[u64]) {
    CRUMB.with(|c| c.set((sub.as_ptr(), sub.len(), words.as_ptr(), words.len())));
}
extern "C" fn crash_handler(sig: i32) {
    // best effort: formatting allocates, which is not async-signal-safe, but the process is about to die anyway
    let (sp, sl, wp, wl) = CRUMB.with(|c| c.get());
    let sub = if sp.is_null() { "" } else { unsafe { std::str::from_utf8_unchecked(std::slice::from_raw_parts(sp, sl)) } };
    let words: &[u64] = if wp.is_null() { &[] } else { unsafe { std::slice::from_raw_parts(wp, wl) } };
    let msg = format!("\nCRASH-CRUMB {{\"signal\": {}, \"sub\": {:?}, \"words\": {:?}}}\n", sig, sub, hexwords(words));
    unsafe {
        libc::write(2, msg.as_ptr() as *const libc::c_void, msg.len());
        libc::_exit(128 + sig);
    }
}
pub fn install_crash_handler() {
    unsafe {
        for s in [libc::SIGSEGV, libc::SIGBUS, libc::SIGILL, libc::SIGFPE] {
            libc::signal(s, crash_handler as usize);
        }
    }
}

/// Entry point of every property binary. Returns the process exit code.
pub fn main_with(property: &str, rule: &str, args: &Args, subs: Vec<SubCheck>) -> i32 {
    silence_panics();
    if std::env::var("VERIF_NO_CRASH_HANDLER").is_err() {
        install_crash_handler();
    }
    let t0 = std::time::Instant::now();
    if let Some(path) = &args.replay {
        return replay(property, args, path, &subs);
    }
    let subs: Vec<&SubCheck> = subs.iter().filter(|s| args.only.as_ref().map_or(true, |o| s.name.contains(o.as_str()))).collect();
    let mut jobs: Vec<(usize, u32)> = vec![];
    for (i, s) in subs.iter().enumerate() {
        for sh in 0..s.shards {
            jobs.push((i, sh));
        }
    }
    // heavy first is not known; interleave shards so that all sub-checks progress
    let next = AtomicUsize::new(0);
    let results: Mutex<Vec<(usize, JobOut, f64)>> = Mutex::new(vec![]);
    std::thread::scope(|sc| {
        for _ in 0..args.threads.min(jobs.len()).max(1) {
            sc.spawn(|| loop {
                let j = next.fetch_add(1, Ordering::SeqCst);
                if j >= jobs.len() {
                    break;
                }
                let (i, sh) = jobs[j];
                let s = subs[i];
                let tj = std::time::Instant::now();
                let mut env = Env { args, sub: &s.name, shard: sh, shards: s.shards, div: s.div, tally: Tally::default(), failures: vec![] };
                env.tally.exhaustive = true;
                let r = std::panic::catch_unwind(std::panic::AssertUnwindSafe(|| (s.run)(&mut env)));
                if let Err(p) = r {
                    env.failures.push(Failure {
                        sub: s.name.clone(),
                        fail: Fail::new("harness-panic", "?", panic_msg(&p)),
                        words: vec![],
                        original_words: vec![],
                    });
                }
                results.lock().unwrap().push((i, JobOut { tally: env.tally, failures: env.failures }, tj.elapsed().as_secs_f64()));
            });
        }
    });
    let mut per: Vec<(Tally, Vec<Failure>, f64)> = subs.iter().map(|_| (Tally { exhaustive: true, ..Tally::default() }, vec![], 0.0)).collect();
    let mut rs = results.into_inner().unwrap();
    rs.sort_by_key(|r| r.0);
    for (i, out, secs) in rs {
        per[i].0.merge(out.tally);
        per[i].1.extend(out.failures);
        per[i].2 += secs;
    }
    let mut jsubs = vec![];
    let mut nfail = 0;
    for (i, (mut t, fails, secs)) in per.into_iter().enumerate() {
        let distinct = t.distinct();
        // one failure per sub-check is enough (shards may each find one)
        let fj: Vec<Value> = fails
            .iter()
            .take(1)
            .map(|f| {
                json!({"sub": f.sub, "sig": f.fail.sig, "op": f.fail.op, "msg": f.fail.msg,
                       "words": hexwords(&f.words), "original_words": hexwords(&f.original_words)})
            })
            .collect();
        nfail += fj.len();
        jsubs.push(json!({
            "name": subs[i].name,
            "evaluations": t.evaluations,
            "nontrivial": t.nontrivial,
            "distinct_nontrivial": distinct,
            "distinct_capped": t.hash_capped,
            "exhaustive": t.exhaustive && t.enumerated_nontrivial > 0,
            "classes": t.classes,
            "headroom": t.headroom,
            "samples": t.samples,
            "known_hits": t.known_hits.iter().map(|(k, (n, ex))| json!({"sig": k, "count": n, "example": ex})).collect::<Vec<_>>(),
            "notes": t.notes,
            "failures": fj,
            "cpu_s": secs,
        }));
    }
    let doc = json!({
        "property": property,
        "rule": rule,
        "build": args.build,
        "tier": if args.tier == Tier::Quick { "quick" } else { "thorough" },
        "seed": args.seed,
        "wall_s": t0.elapsed().as_secs_f64(),
        "subs": jsubs,
    });
    if args.out.is_empty() {
        println!("{}", serde_json::to_string_pretty(&doc).unwrap());
    } else {
        std::fs::write(&args.out, serde_json::to_string(&doc).unwrap()).expect("write partial");
    }
    if nfail > 0 {
        1
    } else {
        0
    }
}

fn parse_words(v: &Value) -> Vec<u64> {
    v.as_array()
        .expect("words array")
        .iter()
        .map(|x| {
            let s = x.as_str().expect("hex string");
            u64::from_str_radix(s.trim_start_matches("0x"), 16).expect("hex")
        })
        .collect()
}

/// `--replay file`: run exactly one sub-check function on exactly the recorded words.
fn replay(property: &str, args: &Args, path: &str, subs: &[SubCheck]) -> i32 {
    let txt = std::fs::read_to_string(path).expect("read replay file");
    let v: Value = serde_json::from_str(&txt).expect("replay json");
    let sub = v["sub"].as_str().expect("sub");
    let words = parse_words(&v["words"]);
    let Some(s) = subs.iter().find(|s| s.name == sub) else {
        // sub-check belongs to another build of this property
        let doc = json!({"property": property, "replay": path, "status": "not-in-this-build", "build": args.build});
        emit(args, &doc);
        return 3;
    };
    let mut t = Tally::default();
    set_crumb(&s.name, &words);
    let r = std::panic::catch_unwind(std::panic::AssertUnwindSafe(|| (s.check)(&words, &mut t)));
    let r = match r {
        Ok(r) => r,
        Err(p) => Err(Fail::new("harness-panic", "?", panic_msg(&p))),
    };
    let (status, code, detail) = match r {
        Ok(()) => ("pass", 0, json!(null)),
        Err(f) => ("fail", 1, json!({"sig": f.sig, "op": f.op, "msg": f.msg})),
    };
    let doc = json!({"property": property, "replay": path, "sub": sub, "status": status, "detail": detail, "build": args.build});
    emit(args, &doc);
    code
}

fn emit(args: &Args, doc: &Value) {
    if args.out.is_empty() {
        println!("{}", serde_json::to_string_pretty(doc).unwrap());
    } else {
        std::fs::write(&args.out, serde_json::to_string(doc).unwrap()).expect("write");
    }
}

/// `catch_unwind` returning the panic message.
pub fn catch<R>(f: impl FnOnce() -> R) -> Result<R, String> {
    std::panic::catch_unwind(std::panic::AssertUnwindSafe(f)).map_err(|p| panic_msg(&p))
}
