//! IEEE comparison helpers, ulp arithmetic and double-double reference arithmetic.

/// IEEE value equality: both NaN, or a == b (so -0 == +0).
#[inline]
pub fn ieq32(a: f32, b: f32) -> bool {
    (a.is_nan() && b.is_nan()) || a == b
}
#[inline]
pub fn ieq64(a: f64, b: f64) -> bool {
    (a.is_nan() && b.is_nan()) || a == b
}

pub const U32: f64 = 5.9604644775390625e-8; // 2^-24 unit roundoff f32
pub const U64: f64 = 1.1102230246251565e-16; // 2^-53 unit roundoff f64

/// Double-double number (hi + lo), ~106 bits. Used as the exact reference for f64 types.
#[derive(Clone, Copy, Debug, PartialEq)]
pub struct DD {
    pub hi: f64,
    pub lo: f64,
}

#[inline]
fn two_sum(a: f64, b: f64) -> (f64, f64) {
    let s = a + b;
    let bb = s - a;
    let e = (a - (s - bb)) + (b - bb);
    (s, e)
}
#[inline]
fn quick_two_sum(a: f64, b: f64) -> (f64, f64) {
    let s = a + b;
    (s, b - (s - a))
}
#[inline]
fn two_prod(a: f64, b: f64) -> (f64, f64) {
    let p = a * b;
    (p, a.mul_add(b, -p))
}

impl DD {
    pub const ZERO: DD = DD { hi: 0.0, lo: 0.0 };
    pub const ONE: DD = DD { hi: 1.0, lo: 0.0 };
    #[inline]
    pub fn new(x: f64) -> DD {
        DD { hi: x, lo: 0.0 }
    }
    #[inline]
    pub fn f(self) -> f64 {
        self.hi + self.lo
    }
    #[inline]
    pub fn add(self, o: DD) -> DD {
        let (s, e) = two_sum(self.hi, o.hi);
        let (t, f) = two_sum(self.lo, o.lo);
        let e = e + t;
        let (s, e) = quick_two_sum(s, e);
        let e = e + f;
        let (hi, lo) = quick_two_sum(s, e);
        DD { hi, lo }
    }
    #[inline]
    pub fn neg(self) -> DD {
        DD { hi: -self.hi, lo: -self.lo }
    }
    #[inline]
    pub fn sub(self, o: DD) -> DD {
        self.add(o.neg())
    }
    #[inline]
    pub fn mul(self, o: DD) -> DD {
        let (p, e) = two_prod(self.hi, o.hi);
        let e = e + (self.hi * o.lo + self.lo * o.hi);
        let (hi, lo) = quick_two_sum(p, e);
        DD { hi, lo }
    }
    #[inline]
    pub fn abs(self) -> DD {
        if self.hi < 0.0 || (self.hi == 0.0 && self.lo < 0.0) {
            self.neg()
        } else {
            self
        }
    }
    pub fn div(self, o: DD) -> DD {
        let q1 = self.hi / o.hi;
        let r = self.sub(o.mul(DD::new(q1)));
        let q2 = r.hi / o.hi;
        let r = r.sub(o.mul(DD::new(q2)));
        let q3 = r.hi / o.hi;
        let (s, e) = quick_two_sum(q1, q2);
        DD { hi: s, lo: e }.add(DD::new(q3))
    }
    pub fn sqrt(self) -> DD {
        if self.hi <= 0.0 {
            return DD::new(self.hi.sqrt());
        }
        let x = 1.0 / self.hi.sqrt();
        let ax = self.hi * x;
        let d = self.sub(DD::new(ax).mul(DD::new(ax)));
        DD::new(ax).add(DD::new(d.hi * (x * 0.5)))
    }
}

/// ulp distance between two finite f32 of the same sign region (monotone integer mapping)
pub fn ulp_diff32(a: f32, b: f32) -> u64 {
    fn key(x: f32) -> i64 {
        let b = x.to_bits() as i32;
        (if b < 0 { i32::MIN.wrapping_sub(b) } else { b }) as i64
    }
    (key(a) - key(b)).unsigned_abs()
}
pub fn ulp_diff64(a: f64, b: f64) -> u64 {
    fn key(x: f64) -> i128 {
        let b = x.to_bits() as i64;
        (if b < 0 { i64::MIN.wrapping_sub(b) } else { b }) as i128
    }
    (key(a) - key(b)).unsigned_abs().min(u64::MAX as u128) as u64
}
