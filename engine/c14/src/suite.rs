// Included once per glam variant (`glam`, VARIANT, backend_items!, backend_arr! come from the including module).
// (the glam types are imported by the generated table: `use glam::*` would shadow the primitive f32/f64 with glam's modules)
#[allow(unused_imports)]
use super::{k_cast, k_from, k_mask, k_repack, k_tryfrom, Entry};
use proptest::prelude::*;
use serde_json::json;
use std::collections::{BTreeMap, HashMap};
use std::sync::OnceLock;
use vcore::*;

/// One conversion that yields lanes: decode the source lanes, build the source value, convert, read the
/// result lanes, hand both to the oracle of the kind.
macro_rules! ent {
    ($id:ident, $name:expr, $k:ident, $st:ty, $ns:expr, $dt:ty, $nd:expr, $build:expr, $conv:expr, $read:expr) => {
        #[allow(non_snake_case, unused_parens)]
        fn $id(w: &[u64]) -> Result<u32, Fail> {
            let l: [$st; $ns] = super::dec::<$st, $ns>(w);
            let s = super::app(l, $build);
            let d = super::app(s, $conv);
            let g: [$dt; $nd] = super::app(d, $read);
            $k::<$st, $dt, $ns, $nd>($name, VARIANT, &l, &g)
        }
    };
}
/// Same for TryFrom: the result is `Option<lanes>`.
macro_rules! ent_try {
    ($id:ident, $name:expr, $k:ident, $st:ty, $ns:expr, $dt:ty, $nd:expr, $build:expr, $conv:expr, $read:expr) => {
        #[allow(non_snake_case, unused_parens)]
        fn $id(w: &[u64]) -> Result<u32, Fail> {
            let l: [$st; $ns] = super::dec::<$st, $ns>(w);
            let s = super::app(l, $build);
            let d = super::app(s, $conv);
            let g: Option<[$dt; $nd]> = super::app(d, $read);
            $k::<$st, $dt, $ns, $nd>($name, VARIANT, &l, &g)
        }
    };
}

/// Vec3A source values carry junk in the padding lane (it must never reach a conversion's result)
#[allow(dead_code)]
#[inline(always)]
pub fn vec3a_junk(x: f32, y: f32, z: f32) -> glam::Vec3A {
    glam::Vec3A::from_vec4(glam::Vec4::new(x, y, z, f32::from_bits(z.to_bits() ^ 0x7fc0_0000 ^ (x.to_bits() >> 9))))
}
include!(concat!(env!("CARGO_MANIFEST_DIR"), "/../gen/c14_table.rs"));

pub fn entries() -> Vec<&'static Entry> {
    ENTRIES_COMMON.iter().chain(ENTRIES_SSE2.iter()).chain(ENTRIES_SCALAR.iter()).chain(ENTRIES_CORESIMD.iter()).collect()
}

fn by_hash() -> &'static HashMap<u64, &'static Entry> {
    static M: OnceLock<HashMap<u64, &'static Entry>> = OnceLock::new();
    M.get_or_init(|| {
        let mut m = HashMap::new();
        for e in entries() {
            let prev = m.insert(hash_str(e.name), e);
            assert!(prev.is_none(), "hash collision between conversion names");
        }
        m
    })
}

/// local counters of an enumerated pass (merged into the tally once, the hot loop stays free of map lookups)
#[derive(Default)]
struct Counts {
    mask: u32,
    evals: u64,
    nontrivial: u64,
    flags: [u64; 15],
    onefail_pos: [u64; 4],
}
impl Counts {
    #[inline(always)]
    fn new(kind: &str) -> Counts {
        Counts { mask: super::nontrivial_mask(kind), ..Counts::default() }
    }
    #[inline(always)]
    fn add(&mut self, fl: u32) {
        self.evals += 1;
        self.nontrivial += (fl & self.mask != 0) as u64;
        let mut b = fl & 0x7fff;
        while b != 0 {
            let i = b.trailing_zeros() as usize;
            self.flags[i] += 1;
            b &= b - 1;
        }
        if fl & super::F_TRY_ONE != 0 {
            self.onefail_pos[((fl >> super::F_POS_SHIFT) & 3) as usize] += 1;
        }
    }
    fn flush(&self, kind: &str, t: &mut Tally) {
        t.eval(self.evals);
        t.nontrivial_enum(self.nontrivial);
        for i in 0..15 {
            if self.flags[i] > 0 {
                t.class_n(&format!("{}:{}", kind, super::FLAG_NAMES[i]), self.flags[i]);
            }
        }
        for i in 0..4 {
            if self.onefail_pos[i] > 0 {
                t.class_n(&format!("tryfrom:only-lane-{}-fails", i), self.onefail_pos[i]);
            }
        }
    }
}

fn tally_flags(e: &Entry, fl: u32, w: &[u64], t: &mut Tally) {
    let mut b = fl & 0x7fff;
    if b == 0 {
        t.class(&format!("{}:plain", e.kind));
    }
    while b != 0 {
        let i = b.trailing_zeros() as usize;
        t.class(&format!("{}:{}", e.kind, super::FLAG_NAMES[i]));
        b &= b - 1;
    }
    if fl & super::F_TRY_ONE != 0 {
        t.class(&format!("tryfrom:only-lane-{}-fails", (fl >> super::F_POS_SHIFT) & 3));
    }
    if super::nontrivial(e.kind, fl) {
        t.nontrivial(mix(hash_str(VARIANT), fnv(w)));
        if t.want_sample() {
            t.sample(json!({"conversion": e.name, "variant": VARIANT, "source_lane_type": e.src, "target_lane_type": e.dst,
                            "what": (0..15).filter(|i| fl & (1 << i) != 0).map(|i| super::FLAG_NAMES[i]).collect::<Vec<_>>(), "words": hexwords(w)}));
        }
    }
}

/// words: [hash of the conversion's name, source lanes as bit patterns ...]
pub fn check(w: &[u64], t: &mut Tally) -> Result<(), Fail> {
    t.eval(1);
    let Some(e) = by_hash().get(&w[0]) else {
        // a saved input of a conversion that is not in this tree / backend any more: nothing to decide
        t.class("conversion-not-in-this-build");
        return Ok(());
    };
    if w.len() < 1 + e.ns {
        return Err(Fail::new("harness-short-case", e.name, "not enough lane words"));
    }
    let fl = (e.f)(&w[1..])?;
    tally_flags(e, fl, w, t);
    Ok(())
}

fn strat(e: &'static Entry) -> BoxedStrategy<Vec<u64>> {
    let h = hash_str(e.name);
    let generic = proptest::collection::vec(super::lane_strat(e.src), e.ns);
    let lanes: BoxedStrategy<Vec<u64>> = if e.kind == "tryfrom" {
        prop_oneof![45 => generic, 55 => super::one_fail_strat(e.src, e.dst, e.ns)].boxed()
    } else {
        generic.boxed()
    };
    lanes
        .prop_map(move |l| {
            let mut w = Vec::with_capacity(l.len() + 1);
            w.push(h);
            w.extend(l);
            w
        })
        .boxed()
}

/// run `e` on explicit lanes in an enumerated pass; a failure is re-run through `check` to be recorded
#[inline(always)]
fn direct(env: &mut Env, e: &'static Entry, lanes: &[u64], c: &mut Counts) -> bool {
    match (e.f)(lanes) {
        Ok(fl) => {
            c.add(fl);
            true
        }
        Err(_) => {
            // enumerated cases are not shrunk by proptest: zero every lane that is not needed for the failure
            let mut w = vec![hash_str(e.name)];
            w.extend_from_slice(lanes);
            for q in 1..w.len() {
                let keep = w[q];
                w[q] = 0;
                if (e.f)(&w[1..]).is_ok() {
                    w[q] = keep;
                }
            }
            env.direct(&w, &check)
        }
    }
}

/// Every boundary value of the source lane type (every value for 8/16-bit types) in every lane position,
/// the other lanes holding other members of the list.
fn boundary_pass(env: &mut Env, e: &'static Entry, list: &[u64], c: &mut Counts) -> bool {
    let n = list.len() as u64;
    let mut lanes = [0u64; 8];
    for i in env.my_range(n) {
        for p in 0..e.ns {
            for q in 0..e.ns {
                lanes[q] = list[((i + 1 + 37 * (q as u64 + 1) + 11 * p as u64) % n) as usize];
            }
            lanes[p] = list[i as usize];
            if !direct(env, e, &lanes[..e.ns], c) {
                return false;
            }
        }
    }
    true
}

/// TryFrom: exactly one failing lane, in each position, for each out-of-range representative.
fn onefail_pass(env: &mut Env, e: &'static Entry, c: &mut Counts) -> bool {
    if env.shard != 0 {
        return true;
    }
    let (bad, good) = super::try_points(e.src, e.dst);
    let mut lanes = [0u64; 8];
    for (bi, b) in bad.iter().enumerate() {
        for p in 0..e.ns {
            for gi in 0..good.len() {
                for q in 0..e.ns {
                    lanes[q] = good[(gi + q * 3 + bi) % good.len()];
                }
                lanes[p] = *b;
                if !direct(env, e, &lanes[..e.ns], c) {
                    return false;
                }
            }
        }
    }
    // and all lanes inside, at the edges of the target range
    for gi in 0..good.len() {
        for q in 0..e.ns {
            lanes[q] = good[(gi + q) % good.len()];
        }
        if !direct(env, e, &lanes[..e.ns], c) {
            return false;
        }
    }
    true
}

fn group_sub<'a>(kind: &'static str, src: &'static str, es: Vec<&'static Entry>) -> SubCheck<'a> {
    let small = super::int_info(src).map_or(false, |(b, _)| b <= 16);
    let shards = if kind == "cast" || kind == "tryfrom" || kind == "repack" { 4 } else { 2 };
    SubCheck::new(
        format!("{}/{}/{}", kind, src, VARIANT),
        shards,
        move |env: &mut Env| {
            let list = super::boundary_list(src);
            let mut c = Counts::new(kind);
            env.tally.exhaustive = small;
            env.tally.notes.insert("conversions".into(), json!(es.len()));
            env.tally.notes.insert(
                "enumerated".into(),
                json!(if small { format!("every {} value in every lane position of every conversion", src) } else { format!("{} boundary values of {} in every lane position of every conversion", list.len(), src) }),
            );
            for e in &es {
                if !boundary_pass(env, e, &list, &mut c) {
                    break;
                }
                if kind == "tryfrom" && !onefail_pass(env, e, &mut c) {
                    break;
                }
            }
            c.flush(kind, &mut env.tally);
            if env.failed() {
                return;
            }
            let n = env.cases(if small { 2000 } else { 8000 }, 30);
            for e in &es {
                env.prop(e.name, n, strat(e), &check);
                if env.failed() {
                    return;
                }
            }
        },
        check,
    )
}

/// Masks: all 2^N values of every From<BVecN>/From<BVecNA>.
fn mask_sub<'a>(es: Vec<&'static Entry>) -> SubCheck<'a> {
    SubCheck::new(
        format!("mask/{}", VARIANT),
        1,
        move |env: &mut Env| {
            let mut c = Counts::new("mask");
            env.tally.exhaustive = true;
            env.tally.notes.insert("conversions".into(), json!(es.len()));
            'outer: for e in &es {
                for m in 0..(1u64 << e.ns) {
                    let mut lanes = [0u64; 8];
                    for q in 0..e.ns {
                        lanes[q] = (m >> q) & 1;
                    }
                    if !direct(env, e, &lanes[..e.ns], &mut c) {
                        break 'outer;
                    }
                }
            }
            c.flush("mask", &mut env.tally);
        },
        check,
    )
}

/// f32 bit-pattern sweep through every as_* cast of one f32 source type.
/// Strided form (quick; reduced-volume builds): case i puts pattern i*stride+offset in lane 0 and
/// golden-ratio-shifted patterns in the other lanes. Complete form (thorough, full volume): 2^32/N cases,
/// lane q of case i holds pattern N*((i + q*K) mod C) + q, so every one of the 2^32 patterns goes through every
/// cast exactly once (pattern p in lane p mod N: each lane sees every sign/exponent and every N-th significand)
/// with unrelated values in the other lanes.
fn sweep_sub<'a>(srcty: &'static str, es: Vec<&'static Entry>) -> SubCheck<'a> {
    SubCheck::new(
        format!("sweep-f32/{}/{}", srcty, VARIANT),
        16,
        move |env: &mut Env| {
            let full = env.args.scale >= 1.0;
            let stride: u64 = match (env.args.tier, full) {
                (Tier::Thorough, true) => 1,
                (Tier::Thorough, false) => 7,
                (Tier::Quick, true) => 97,
                (Tier::Quick, false) => 389,
            };
            let ns = es[0].ns;
            let mut c = Counts::new("cast");
            let mut lanes = [0u64; 8];
            if stride == 1 {
                let n = ns as u64;
                let cases = ((1u64 << 32) + n - 1) / n;
                const K: u64 = 0x3C6E_F35F;
                'outer1: for i in env.my_range(cases) {
                    for q in 0..n {
                        lanes[q as usize] = (n * ((i + q * K) % cases) + q) & 0xffff_ffff;
                    }
                    for e in &es {
                        if !direct(env, e, &lanes[..ns], &mut c) {
                            break 'outer1;
                        }
                    }
                }
            } else {
                let total: u64 = ((1u64 << 32) + stride - 1) / stride;
                let offset = mix(env.args.seed, 77) % stride;
                'outer: for i in env.my_range(total) {
                    let p = (i * stride + offset) & 0xffff_ffff;
                    for q in 0..ns {
                        lanes[q] = (p + q as u64 * 0x9E37_79B1) & 0xffff_ffff;
                    }
                    for e in &es {
                        if !direct(env, e, &lanes[..ns], &mut c) {
                            break 'outer;
                        }
                    }
                }
            }
            c.flush("cast", &mut env.tally);
            env.tally.exhaustive = stride == 1;
            env.tally.notes.insert("stride".into(), json!(stride));
            env.tally.notes.insert(
                "coverage".into(),
                json!(if stride == 1 { "every f32 bit pattern through every cast of this type (pattern p in lane p mod N)" } else { "every stride-th f32 bit pattern in lane 0, shifted patterns in the other lanes" }),
            );
            env.tally.notes.insert("conversions".into(), json!(es.iter().map(|e| e.name).collect::<Vec<_>>()));
        },
        check,
    )
}

/// What the generator found: every conversion is run once on (1, 2, 3, 4); the skipped list goes to the evidence.
fn table_sub<'a>(es: Vec<&'static Entry>) -> SubCheck<'a> {
    SubCheck::new(
        format!("table/{}", VARIANT),
        1,
        move |env: &mut Env| {
            let mut kinds: BTreeMap<&str, u64> = BTreeMap::new();
            let mut c = Counts::default();
            for e in &es {
                *kinds.entry(e.kind).or_insert(0) += 1;
                let lanes: Vec<u64> = (0..e.ns as u64)
                    .map(|q| match e.src {
                        "f32" => ((q + 1) as f32).to_bits() as u64,
                        "f64" => ((q + 1) as f64).to_bits(),
                        "bool" => q & 1,
                        _ => q + 1,
                    })
                    .collect();
                if !direct(env, e, &lanes, &mut c) {
                    break;
                }
            }
            env.tally.eval(c.evals);
            env.tally.exhaustive = false;
            env.tally.notes.insert("oracle_selfcheck_points".into(), json!(super::oracle_selfcheck()));
            env.tally.notes.insert("conversions_extracted".into(), json!(es.len()));
            env.tally.notes.insert("conversions_by_kind".into(), json!(kinds));
            env.tally.notes.insert("files_scanned".into(), json!(SCANNED_FILES));
            env.tally.notes.insert("skipped_by_generator".into(), json!(SKIPPED));
        },
        check,
    )
}

pub fn subs<'a>(_args: &Args) -> Vec<SubCheck<'a>> {
    let all = entries();
    let mut out = vec![table_sub(all.clone())];
    let mut groups: BTreeMap<(&'static str, &'static str), Vec<&'static Entry>> = BTreeMap::new();
    let mut sweeps: BTreeMap<&'static str, Vec<&'static Entry>> = BTreeMap::new();
    for e in &all {
        groups.entry((e.kind, e.src)).or_default().push(e);
        if e.kind == "cast" && e.src == "f32" {
            sweeps.entry(e.srcty).or_default().push(e);
        }
    }
    for ((kind, src), es) in groups {
        if kind == "mask" {
            out.push(mask_sub(es));
        } else {
            out.push(group_sub(kind, src, es));
        }
    }
    for (srcty, es) in sweeps {
        out.push(sweep_sub(srcty, es));
    }
    out
}
