//! C14 — not implemented yet.
fn main() {
    eprintln!("c14: not implemented");
    std::process::exit(2);
}
