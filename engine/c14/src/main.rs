//! C14 — conversions between vector types match the primitive conversions lane by lane.
//!
//! The list of conversions is generated from the working tree by /verif/lib/gen_conv.py into
//! engine/gen/c14_table.rs (one call site per `as_*` method / From / TryFrom impl / re-packaging
//! method) and instantiated once per glam variant by `suite.rs`. Everything in this file is shared by
//! the variants and does not depend on glam: lane types, the per-kind oracles, lattices, strategies.
#![cfg_attr(feature = "core", feature(portable_simd))]
#![allow(clippy::all)]
use proptest::prelude::*;
use proptest::strategy::BoxedStrategy;
use vcore::*;

// ------------------------------------------------------------------------------------------------
// lanes

pub trait Lane: Copy + PartialEq + std::fmt::Debug + Send + Sync + 'static {
    const NAME: &'static str;
    const FLOAT: bool;
    const BITS: u32;
    /// integer range (0,0 for floats)
    const MIN_I: i128;
    const MAX_I: i128;
    fn dec(w: u64) -> Self;
    fn enc(self) -> u64;
    fn as_f64(self) -> f64;
    fn as_i128(self) -> i128;
    fn nan(self) -> bool;
    fn inf(self) -> bool;
}

macro_rules! int_lane {
    ($($t:ident),*) => {$(
        impl Lane for $t {
            const NAME: &'static str = stringify!($t);
            const FLOAT: bool = false;
            const BITS: u32 = <$t>::BITS;
            const MIN_I: i128 = <$t>::MIN as i128;
            const MAX_I: i128 = <$t>::MAX as i128;
            #[inline(always)] fn dec(w: u64) -> Self { w as $t }
            #[inline(always)] fn enc(self) -> u64 { (self as u64) & (u64::MAX >> (64 - <$t>::BITS)) }
            #[inline(always)] fn as_f64(self) -> f64 { self as f64 }
            #[inline(always)] fn as_i128(self) -> i128 { self as i128 }
            #[inline(always)] fn nan(self) -> bool { false }
            #[inline(always)] fn inf(self) -> bool { false }
        }
    )*};
}
int_lane!(i8, u8, i16, u16, i32, u32, i64, u64, usize);

impl Lane for f32 {
    const NAME: &'static str = "f32";
    const FLOAT: bool = true;
    const BITS: u32 = 32;
    const MIN_I: i128 = 0;
    const MAX_I: i128 = 0;
    #[inline(always)] fn dec(w: u64) -> Self { f32::from_bits(w as u32) }
    #[inline(always)] fn enc(self) -> u64 { self.to_bits() as u64 }
    #[inline(always)] fn as_f64(self) -> f64 { self as f64 }
    #[inline(always)] fn as_i128(self) -> i128 { self as i128 }
    #[inline(always)] fn nan(self) -> bool { self.is_nan() }
    #[inline(always)] fn inf(self) -> bool { self.is_infinite() }
}
impl Lane for f64 {
    const NAME: &'static str = "f64";
    const FLOAT: bool = true;
    const BITS: u32 = 64;
    const MIN_I: i128 = 0;
    const MAX_I: i128 = 0;
    #[inline(always)] fn dec(w: u64) -> Self { f64::from_bits(w) }
    #[inline(always)] fn enc(self) -> u64 { self.to_bits() }
    #[inline(always)] fn as_f64(self) -> f64 { self }
    #[inline(always)] fn as_i128(self) -> i128 { self as i128 }
    #[inline(always)] fn nan(self) -> bool { self.is_nan() }
    #[inline(always)] fn inf(self) -> bool { self.is_infinite() }
}
impl Lane for bool {
    const NAME: &'static str = "bool";
    const FLOAT: bool = false;
    const BITS: u32 = 1;
    const MIN_I: i128 = 0;
    const MAX_I: i128 = 1;
    #[inline(always)] fn dec(w: u64) -> Self { w & 1 != 0 }
    #[inline(always)] fn enc(self) -> u64 { self as u64 }
    #[inline(always)] fn as_f64(self) -> f64 { self as u8 as f64 }
    #[inline(always)] fn as_i128(self) -> i128 { self as i128 }
    #[inline(always)] fn nan(self) -> bool { false }
    #[inline(always)] fn inf(self) -> bool { false }
}

/// The reference conversion: Rust's `as` between the primitive lane types.
pub trait Cast<D> {
    fn cast(self) -> D;
}
macro_rules! cast_to {
    ($s:ident => $($d:ident),*) => {$( impl Cast<$d> for $s { #[inline(always)] fn cast(self) -> $d { self as $d } } )*};
}
macro_rules! cast_all {
    ($($s:ident),*) => {$( cast_to!($s => f32, f64, i8, u8, i16, u16, i32, u32, i64, u64, usize); )*};
}
cast_all!(f32, f64, i8, u8, i16, u16, i32, u32, i64, u64, usize);
macro_rules! bool_cast {
    ($($d:ident),*) => {$( impl Cast<$d> for bool { #[inline(always)] fn cast(self) -> $d { (self as u8) as $d } } )*};
}
bool_cast!(f32, f64, i8, u8, i16, u16, i32, u32, i64, u64, usize);

#[inline(always)]
pub fn dec<S: Lane, const N: usize>(w: &[u64]) -> [S; N] {
    let mut a = [S::dec(0); N];
    for i in 0..N {
        a[i] = S::dec(w[i]);
    }
    a
}
/// `f(a)` with the closure's parameter type fixed by `a` (lets the generated call sites write untyped closures).
#[inline(always)]
pub fn app<A, R>(a: A, f: impl FnOnce(A) -> R) -> R {
    f(a)
}
#[cfg(target_arch = "x86_64")]
#[inline(always)]
pub fn m128_from(a: [f32; 4]) -> core::arch::x86_64::__m128 {
    unsafe { core::mem::transmute(a) }
}
#[cfg(target_arch = "x86_64")]
#[inline(always)]
pub fn m128_to(m: core::arch::x86_64::__m128) -> [f32; 4] {
    unsafe { core::mem::transmute(m) }
}

// ------------------------------------------------------------------------------------------------
// table entries and what a case exercised (flags)

pub struct Entry {
    pub name: &'static str,
    /// cast | from | tryfrom | repack | mask
    pub kind: &'static str,
    pub src: &'static str,
    pub dst: &'static str,
    pub ns: usize,
    pub nd: usize,
    /// source type as written in the impl (groups the f32 sweeps)
    pub srcty: &'static str,
    pub f: fn(&[u64]) -> Result<u32, Fail>,
}

pub const F_NAN: u32 = 1;
pub const F_INF: u32 = 2;
pub const F_SAT: u32 = 4;
pub const F_TRUNC: u32 = 8;
pub const F_WRAP: u32 = 16;
pub const F_ROUND: u32 = 32;
pub const F_BOUND: u32 = 64;
pub const F_NEG: u32 = 128;
pub const F_DISTINCT: u32 = 256;
pub const F_TRY_OK: u32 = 512;
pub const F_TRY_ONE: u32 = 1024;
pub const F_TRY_MULTI: u32 = 2048;
pub const F_MIXED: u32 = 4096;
pub const F_SUBNORMAL: u32 = 8192;
pub const F_NEGZERO: u32 = 16384;
/// position of the single failing lane of a TryFrom case
pub const F_POS_SHIFT: u32 = 16;
pub const FLAG_NAMES: [&str; 15] = [
    "nan", "inf", "saturates", "truncates-fraction", "wraps", "rounds", "range-boundary", "negative", "distinct-lanes", "try-ok",
    "try-one-failing-lane", "try-several-failing-lanes", "mask-mixed", "subnormal", "negative-zero",
];

/// the property's non-trivial rule, per kind of conversion
pub fn nontrivial_mask(kind: &str) -> u32 {
    match kind {
        "cast" => F_NAN | F_INF | F_SAT | F_TRUNC | F_WRAP | F_ROUND | F_BOUND,
        "from" => F_NAN | F_INF | F_BOUND | F_NEG | F_SUBNORMAL | F_NEGZERO,
        "tryfrom" => F_TRY_ONE | F_BOUND,
        "repack" => F_DISTINCT,
        "mask" => F_MIXED,
        _ => 0,
    }
}
pub fn nontrivial(kind: &str, fl: u32) -> bool {
    fl & nontrivial_mask(kind) != 0
}

#[inline(always)]
fn same<D: Lane>(a: D, b: D) -> bool {
    a.enc() == b.enc() || (a.nan() && b.nan())
}

fn show<T: Lane, const N: usize>(a: &[T; N]) -> String {
    let v: Vec<String> = a.iter().map(|x| format!("{:?} (0x{:x})", x, x.enc())).collect();
    format!("[{}]", v.join(", "))
}

#[cold]
fn lane_fail<S: Lane, D: Lane, const NS: usize, const ND: usize>(name: &str, var: &str, what: &str, i: usize, exp: D, l: &[S; NS], g: &[D; ND]) -> Fail {
    Fail::new(
        format!("C14/{}/{}", var, name),
        name.to_string(),
        format!("{what}: lane {i}: got {:?} (0x{:x}) expected {:?} (0x{:x}); source {} lanes={} result {} lanes={}", g[i], g[i].enc(), exp, exp.enc(), S::NAME, show(l), D::NAME, show(g)),
    )
}

/// flags describing what `s as D` did (classification only; the comparison is done by the caller)
#[inline(always)]
fn cast_flags<S: Lane, D: Lane>(s: S, e: D) -> u32 {
    let mut fl = 0;
    if S::FLOAT {
        let x = s.as_f64();
        if x.is_nan() {
            return F_NAN;
        }
        if x.is_infinite() {
            fl |= F_INF;
        }
        if x < 0.0 {
            fl |= F_NEG;
        }
        if !D::FLOAT {
            // trunc without the libm call of the baseline target: |x| >= 2^52 has no fraction
            let t = if x.abs() < 4503599627370496.0 { (x as i64) as f64 } else { x };
            let lo = D::MIN_I as f64; // 0 or -2^k: exact
            let hi1 = (D::MAX_I + 1) as f64; // 2^k: exact
            if t < lo || t >= hi1 {
                fl |= F_SAT;
            }
            if t != x && x.is_finite() {
                fl |= F_TRUNC;
            }
            if t == lo || t == hi1 || t == hi1 - 1.0 || t == lo - 1.0 {
                fl |= F_BOUND;
            }
        } else {
            if e.inf() && !s.inf() {
                fl |= F_SAT;
            }
            if e.as_f64() != x {
                fl |= F_ROUND;
            }
        }
    } else {
        let v = s.as_i128();
        if v < 0 {
            fl |= F_NEG;
        }
        if v == S::MIN_I || v == S::MAX_I {
            fl |= F_BOUND;
        }
        if D::FLOAT {
            if e.as_f64() as i128 != v {
                fl |= F_ROUND;
            }
        } else {
            if v < D::MIN_I || v > D::MAX_I {
                fl |= F_WRAP;
            }
            if v == D::MIN_I || v == D::MAX_I || v == D::MAX_I + 1 || v == D::MIN_I - 1 {
                fl |= F_BOUND;
            }
        }
    }
    fl
}

/// `as_*` casts: every lane equals `lane as D`.
#[inline]
pub fn k_cast<S: Lane + Cast<D>, D: Lane, const NS: usize, const ND: usize>(name: &str, var: &str, l: &[S; NS], g: &[D; ND]) -> Result<u32, Fail> {
    let mut fl = 0;
    for i in 0..ND {
        let e: D = l[i].cast();
        if !same(g[i], e) {
            return Err(lane_fail(name, var, "cast differs from `as`", i, e, l, g));
        }
        fl |= cast_flags(l[i], e);
    }
    Ok(fl)
}

/// From between vector types of different lane type: the primitive conversion, and it must be lossless
/// (converting the result back with `as` gives the identical source lane).
#[inline]
pub fn k_from<S: Lane + Cast<D>, D: Lane + Cast<S>, const NS: usize, const ND: usize>(name: &str, var: &str, l: &[S; NS], g: &[D; ND]) -> Result<u32, Fail> {
    let mut fl = 0;
    for i in 0..ND {
        let s = l[i];
        let e: D = s.cast();
        if !same(g[i], e) {
            return Err(lane_fail(name, var, "From differs from the primitive conversion", i, e, l, g));
        }
        let back: S = g[i].cast();
        if !same(back, s) {
            return Err(Fail::new(
                format!("C14/{}/{}", var, name),
                name.to_string(),
                format!("From is not lossless: lane {i}: source {:?} (0x{:x}) became {:?} which converts back to {:?}; source lanes={}", s, s.enc(), g[i], back, show(l)),
            ));
        }
        if S::FLOAT {
            let x = s.as_f64();
            if x.is_nan() {
                fl |= F_NAN;
            } else {
                if x.is_infinite() {
                    fl |= F_INF;
                }
                if x.is_sign_negative() {
                    fl |= if x == 0.0 { F_NEGZERO } else { F_NEG };
                }
                if x != 0.0 && x.abs() < f32::MIN_POSITIVE as f64 {
                    fl |= F_SUBNORMAL;
                }
                if x.abs() == f32::MAX as f64 {
                    fl |= F_BOUND;
                }
            }
        } else {
            let v = s.as_i128();
            if v < 0 {
                fl |= F_NEG;
            }
            if v == S::MIN_I || v == S::MAX_I {
                fl |= F_BOUND;
            }
        }
    }
    Ok(fl)
}

/// TryFrom between integer vector types: Ok with exactly the lane values iff every lane is inside the
/// target range (decided in i128, which holds every lane type exactly), Err otherwise.
#[inline]
pub fn k_tryfrom<S: Lane + Cast<D>, D: Lane, const NS: usize, const ND: usize>(name: &str, var: &str, l: &[S; NS], g: &Option<[D; ND]>) -> Result<u32, Fail> {
    let mut fl = 0;
    let mut nfail = 0;
    let mut pos = 0;
    for i in 0..NS {
        let v = l[i].as_i128();
        if v < D::MIN_I || v > D::MAX_I {
            nfail += 1;
            pos = i as u32;
        } else if v == D::MIN_I || v == D::MAX_I {
            fl |= F_BOUND;
        }
        if v < 0 {
            fl |= F_NEG;
        }
    }
    let sig = || format!("C14/{}/{}", var, name);
    match (nfail, g) {
        (0, Some(g)) => {
            for i in 0..ND {
                if g[i].as_i128() != l[i].as_i128() {
                    let e: D = l[i].cast();
                    return Err(lane_fail(name, var, "TryFrom returned Ok with a different value", i, e, l, g));
                }
            }
            fl |= F_TRY_OK;
        }
        (0, None) => {
            return Err(Fail::new(sig(), name.to_string(), format!("TryFrom returned Err although every lane fits {}: source {} lanes={}", D::NAME, S::NAME, show(l))));
        }
        (_, Some(g)) => {
            return Err(Fail::new(
                sig(),
                name.to_string(),
                format!("TryFrom returned Ok({}) although {} lane(s) (last: lane {}) do not fit {}: source {} lanes={}", show(g), nfail, pos, D::NAME, S::NAME, show(l)),
            ));
        }
        (1, None) => fl |= F_TRY_ONE | (pos << F_POS_SHIFT),
        (_, None) => fl |= F_TRY_MULTI,
    }
    Ok(fl)
}

/// Re-packaging (arrays, tuples, (vector, scalar), extend/truncate, Vec3<->Vec3A, Quat<->Vec4, from_vec4,
/// native registers): result lane i is source lane i, bit for bit.
#[inline]
pub fn k_repack<S: Lane, D: Lane, const NS: usize, const ND: usize>(name: &str, var: &str, l: &[S; NS], g: &[D; ND]) -> Result<u32, Fail> {
    let n = if NS < ND { NS } else { ND };
    let mut fl = 0;
    for i in 0..n {
        if g[i].enc() != l[i].enc() {
            let e = D::dec(l[i].enc());
            return Err(lane_fail(name, var, "lane not preserved bit-for-bit", i, e, l, g));
        }
        if l[i].nan() {
            fl |= F_NAN;
        }
    }
    let mut distinct = true;
    for i in 0..NS {
        for j in 0..i {
            distinct &= l[i].enc() != l[j].enc();
        }
    }
    if distinct {
        fl |= F_DISTINCT;
    }
    Ok(fl)
}

/// From<BVecN>/From<BVecNA>: true is 1 and false is 0 in the target lane type.
#[inline]
pub fn k_mask<S: Lane + Cast<D>, D: Lane, const NS: usize, const ND: usize>(name: &str, var: &str, l: &[S; NS], g: &[D; ND]) -> Result<u32, Fail> {
    let mut ones = 0;
    for i in 0..ND {
        let e: D = l[i].cast();
        if g[i].enc() != e.enc() {
            return Err(lane_fail(name, var, "mask lane is not 1 for true / 0 for false", i, e, l, g));
        }
        ones += l[i].enc();
    }
    Ok(if ones != 0 && ones != ND as u64 { F_MIXED } else { 0 })
}

// ------------------------------------------------------------------------------------------------
// lattices and strategies (by name of the source lane type)

pub fn int_info(name: &str) -> Option<(u32, bool)> {
    Some(match name {
        "i8" => (8, true),
        "u8" => (8, false),
        "i16" => (16, true),
        "u16" => (16, false),
        "i32" => (32, true),
        "u32" => (32, false),
        "i64" => (64, true),
        "u64" | "usize" => (64, false),
        _ => return None,
    })
}
pub fn int_range(name: &str) -> (i128, i128) {
    let (b, s) = int_info(name).expect("integer lane");
    if s {
        (-(1i128 << (b - 1)), (1i128 << (b - 1)) - 1)
    } else {
        (0, (1i128 << b) - 1)
    }
}
#[inline]
pub fn enc_int(v: i128, bits: u32) -> u64 {
    (v as u64) & (u64::MAX >> (64 - bits))
}

/// value (+-)(2^k + delta) + frac quarter(s), as f64, then nudged by `ulp` units in the last place of the source float type
fn int_boundary_float(bits32: bool, k: u32, delta: i32, neg: bool, quarters: u32, ulp: i32) -> u64 {
    let mut x = (2.0f64).powi(k as i32) + delta as f64 + quarters as f64 * 0.25;
    if neg {
        x = -x;
    }
    if bits32 {
        let b = (x as f32).to_bits() as i64 + ulp as i64;
        (b as u32) as u64
    } else {
        (x.to_bits() as i64 + ulp as i64) as u64
    }
}

/// Deterministic boundary list of a source lane type (every value for 8/16-bit types).
pub fn boundary_list(src: &str) -> Vec<u64> {
    let mut v: Vec<u64> = vec![];
    match src {
        "bool" => v.extend([0, 1]),
        "f32" | "f64" => {
            let b32 = src == "f32";
            for k in 0..=64u32 {
                for delta in -2..=2 {
                    for neg in [false, true] {
                        for q in [0, 2] {
                            for ulp in -1..=1 {
                                v.push(int_boundary_float(b32, k, delta, neg, q, ulp));
                            }
                        }
                    }
                }
            }
            if b32 {
                v.extend(lattice::f32_specials().iter().map(|x| *x as u64));
            } else {
                v.extend(lattice::f64_specials());
                // f64 values around f32 representability: neighbours and midpoints of adjacent f32 values
                for b in [0u32, 1, 2, 0x007f_ffff, 0x0080_0000, 0x3f80_0000, 0x3f7f_ffff, 0x4b7f_ffff, 0x4b80_0000, 0x7f7f_fffe, 0x7f7f_ffff] {
                    for s in [1.0f64, -1.0] {
                        let lo = f32::from_bits(b) as f64;
                        let hi = if b == 0x7f7f_ffff { 2.0f64.powi(128) } else { f32::from_bits(b + 1) as f64 };
                        let mid = lo + (hi - lo) / 2.0;
                        for x in [lo, mid, hi] {
                            for u in -1i64..=1 {
                                v.push(((s * x).to_bits() as i64 + u) as u64);
                            }
                        }
                    }
                }
            }
        }
        _ => {
            let (bits, _signed) = int_info(src).expect("lane type");
            if bits <= 16 {
                v.extend(0..(1u64 << bits));
            } else {
                for k in 0..bits {
                    for delta in -2i128..=2 {
                        for neg in [false, true] {
                            let x = (1i128 << k) + delta;
                            v.push(enc_int(if neg { -x } else { x }, bits));
                        }
                    }
                }
                // values that round (ties) when converted to f32 / f64
                for k in [24u32, 25, 31, 53, 54, 62] {
                    if k < bits {
                        for m in [1i128, 2, 3, 5, 6, 7] {
                            let sh = if k >= 53 { k - 53 } else { k - 24 };
                            let x = (1i128 << k) + (m << sh) / 2;
                            v.push(enc_int(x, bits));
                            v.push(enc_int(-x, bits));
                            v.push(enc_int(x + 1, bits));
                            v.push(enc_int(x - 1, bits));
                        }
                    }
                }
                v.extend(0..=16u64);
            }
        }
    }
    v.sort_unstable();
    v.dedup();
    v
}

/// One source lane: the shared lattice of the type plus the integer-range boundaries every target type has.
pub fn lane_strat(src: &str) -> BoxedStrategy<u64> {
    match src {
        "bool" => (0u64..2).boxed(),
        "f32" => prop_oneof![
            40 => lattice::lat_f32(),
            45 => (0u32..=64, -2i32..=2, any::<bool>(), 0u32..4, -2i32..=2).prop_map(|(k, d, n, q, u)| int_boundary_float(true, k, d, n, q, u)),
            15 => any::<u32>().prop_map(|b| b as u64),
        ]
        .boxed(),
        "f64" => prop_oneof![
            35 => lattice::lat_f64(),
            35 => (0u32..=64, -2i32..=2, any::<bool>(), 0u32..4, -2i32..=2).prop_map(|(k, d, n, q, u)| int_boundary_float(false, k, d, n, q, u)),
            // around the f32 grid: an f32 value, the midpoint to its successor, +-1 ulp of f64
            20 => (any::<u32>(), 0u8..3, -1i64..=1).prop_map(|(b, w, u)| {
                let b = if b & 0x7f80_0000 == 0x7f80_0000 { b & 0xff7f_ffff } else { b };
                let lo = f32::from_bits(b) as f64;
                let hi = f32::from_bits(b.wrapping_add(1)) as f64;
                let x = match w { 0 => lo, 1 => if hi.is_finite() { lo + (hi - lo) / 2.0 } else { lo }, _ => hi };
                if x.is_finite() { (x.to_bits() as i64 + u) as u64 } else { x.to_bits() }
            }),
            10 => any::<u64>(),
        ]
        .boxed(),
        _ => {
            let (bits, signed) = int_info(src).expect("lane type");
            prop_oneof![
                45 => lattice::lat_int(bits, signed),
                35 => (0u32..bits, -3i128..=3, any::<bool>()).prop_map(move |(k, d, n)| { let x = (1i128 << k) + d; enc_int(if n { -x } else { x }, bits) }),
                // a short significand somewhere in the word (+-1): inexact when converted to a float
                20 => (any::<u32>(), 0u32..64, -1i128..=1, any::<bool>()).prop_map(move |(m, sh, d, n)| {
                    let x = ((m as i128) << (sh % bits.max(1))) + d;
                    enc_int(if n { -x } else { x }, bits)
                }),
            ]
            .boxed()
        }
    }
}

/// TryFrom with exactly one lane outside the target range (position and side drawn), the others inside.
pub fn one_fail_strat(src: &'static str, dst: &'static str, ns: usize) -> BoxedStrategy<Vec<u64>> {
    let (sbits, _) = int_info(src).unwrap();
    let (dbits, dsigned) = int_info(dst).unwrap();
    let (slo, shi) = int_range(src);
    let (dlo, dhi) = int_range(dst);
    let (ilo, ihi) = (slo.max(dlo), shi.min(dhi));
    let inside = lattice::lat_int(dbits, dsigned).prop_map(move |w| {
        // sign-extend the target-type pattern, clamp into the intersection of the two ranges
        let v: i128 = if dsigned { ((w << (64 - dbits)) as i64 >> (64 - dbits)) as i128 } else { w as i128 };
        enc_int(v.clamp(ilo, ihi), sbits)
    });
    (proptest::collection::vec(inside, ns), 0..ns, any::<bool>(), 0u8..4, any::<u64>())
        .prop_map(move |(mut lanes, pos, high, mode, r)| {
            let can_hi = shi > dhi;
            let can_lo = slo < dlo;
            let bad: Option<i128> = if (high && can_hi) || !can_lo {
                if !can_hi {
                    None
                } else {
                    let span = (shi - dhi) as u128; // number of out-of-range values above
                    Some(match mode {
                        0 => dhi + 1,
                        1 => (dhi + 2).min(shi),
                        2 => shi,
                        _ => dhi + 1 + ((r as u128 * span) >> 64) as i128,
                    })
                }
            } else {
                let span = (dlo - slo) as u128;
                Some(match mode {
                    0 => dlo - 1,
                    1 => (dlo - 2).max(slo),
                    2 => slo,
                    _ => dlo - 1 - ((r as u128 * span) >> 64) as i128,
                })
            };
            if let Some(b) = bad {
                lanes[pos] = enc_int(b, sbits);
            }
            lanes
        })
        .boxed()
}

/// the out-of-range / in-range representatives used by the enumerated one-failing-lane pass
pub fn try_points(src: &str, dst: &str) -> (Vec<u64>, Vec<u64>) {
    let (sbits, _) = int_info(src).unwrap();
    let (slo, shi) = int_range(src);
    let (dlo, dhi) = int_range(dst);
    let (ilo, ihi) = (slo.max(dlo), shi.min(dhi));
    let mut bad = vec![];
    if shi > dhi {
        bad.extend([dhi + 1, (dhi + 2).min(shi), shi, shi - 1, dhi + (shi - dhi) / 2]);
    }
    if slo < dlo {
        bad.extend([dlo - 1, (dlo - 2).max(slo), slo, slo + 1, dlo - (dlo - slo) / 2]);
    }
    let mut good = vec![ilo, ilo + 1, 0i128.clamp(ilo, ihi), 1i128.clamp(ilo, ihi), ihi - 1, ihi, (ilo + ihi) / 2];
    good.dedup();
    let e = |v: Vec<i128>| {
        let mut o: Vec<u64> = v.into_iter().map(|x| enc_int(x, sbits)).collect();
        o.sort_unstable();
        o.dedup();
        o
    };
    (e(bad), e(good))
}

/// Self-check of the reference: `as` from floats to every integer type is compared, over the boundary lists,
/// with the documented semantics written out by hand (NaN -> 0, truncate toward zero, saturate).
pub fn oracle_selfcheck() -> u64 {
    let mut n = 0;
    let xs: Vec<f64> = boundary_list("f64").into_iter().map(f64::from_bits).chain(boundary_list("f32").into_iter().map(|b| f32::from_bits(b as u32) as f64)).collect();
    macro_rules! chk {
        ($($d:ident),*) => {$(
            for &x in &xs {
                let (lo, hi) = (<$d>::MIN as i128, <$d>::MAX as i128);
                let t = x.trunc();
                let manual: i128 = if x.is_nan() { 0 } else if t <= lo as f64 { lo } else if t >= (hi + 1) as f64 { hi } else { t as i128 };
                assert_eq!((x as $d) as i128, manual, "`{} as {}`", x, stringify!($d));
                let y = x as f32;
                if y as f64 == x {
                    assert_eq!((y as $d) as i128, manual, "`{}f32 as {}`", y, stringify!($d));
                }
                n += 1;
            }
        )*};
    }
    chk!(i8, u8, i16, u16, i32, u32, i64, u64, usize);
    n
}

// ------------------------------------------------------------------------------------------------
// one instantiation of suite.rs (+ the generated table) per glam variant

#[cfg(not(feature = "core"))]
mod simd {
    pub const VARIANT: &str = "simd";
    use ::glam_simd as glam;
    macro_rules! backend_items { (sse2 { $($t:tt)* }) => { $($t)* }; ($o:ident { $($t:tt)* }) => {}; }
    macro_rules! backend_arr { (sse2 [ $($t:tt)* ]) => { &[ $($t)* ] }; ($o:ident [ $($t:tt)* ]) => { &[] }; }
    include!("suite.rs");
}
/// the same checks with `glam-assert` compiled in: none of these operations has a documented precondition, so a
/// panic there is a failure
#[cfg(not(feature = "core"))]
mod asserting {
    pub const VARIANT: &str = "simd+glam-assert";
    use ::glam_assert as glam;
    macro_rules! backend_items { (sse2 { $($t:tt)* }) => { $($t)* }; ($o:ident { $($t:tt)* }) => {}; }
    macro_rules! backend_arr { (sse2 [ $($t:tt)* ]) => { &[ $($t)* ] }; ($o:ident [ $($t:tt)* ]) => { &[] }; }
    include!("suite.rs");
}
#[cfg(not(feature = "core"))]
mod scalar {
    pub const VARIANT: &str = "scalar";
    use ::glam_scalar as glam;
    macro_rules! backend_items { (scalar { $($t:tt)* }) => { $($t)* }; ($o:ident { $($t:tt)* }) => {}; }
    macro_rules! backend_arr { (scalar [ $($t:tt)* ]) => { &[ $($t)* ] }; ($o:ident [ $($t:tt)* ]) => { &[] }; }
    include!("suite.rs");
}
/// scalar-math with `glam-assert`: the second pass for the scalar copies (a quarter of the volume)
#[cfg(not(feature = "core"))]
mod scalar_asserting {
    pub const VARIANT: &str = "scalar+glam-assert";
    use ::glam_scalar_assert as glam;
    macro_rules! backend_items { (scalar { $($t:tt)* }) => { $($t)* }; ($o:ident { $($t:tt)* }) => {}; }
    macro_rules! backend_arr { (scalar [ $($t:tt)* ]) => { &[ $($t)* ] }; ($o:ident [ $($t:tt)* ]) => { &[] }; }
    include!("suite.rs");
}
#[cfg(feature = "core")]
mod core_simd {
    pub const VARIANT: &str = "core";
    use ::glam_core as glam;
    macro_rules! backend_items { (coresimd { $($t:tt)* }) => { $($t)* }; ($o:ident { $($t:tt)* }) => {}; }
    macro_rules! backend_arr { (coresimd [ $($t:tt)* ]) => { &[ $($t)* ] }; ($o:ident [ $($t:tt)* ]) => { &[] }; }
    include!("suite.rs");
}
/// core-simd with `glam-assert`: the second pass for the portable-simd copies (a quarter of the volume)
#[cfg(feature = "core")]
mod core_asserting {
    pub const VARIANT: &str = "core+glam-assert";
    use ::glam_core_assert as glam;
    macro_rules! backend_items { (coresimd { $($t:tt)* }) => { $($t)* }; ($o:ident { $($t:tt)* }) => {}; }
    macro_rules! backend_arr { (coresimd [ $($t:tt)* ]) => { &[ $($t)* ] }; ($o:ident [ $($t:tt)* ]) => { &[] }; }
    include!("suite.rs");
}

fn main() {
    let args = Args::parse();
    let mut subs = vec![];
    #[cfg(not(feature = "core"))]
    {
        subs.extend(simd::subs(&args));
        subs.extend(scalar::subs(&args));
        subs.extend(asserting::subs(&args));
        subs.extend(scalar_asserting::subs(&args).into_iter().map(|s| s.with_div(4)));
    }
    #[cfg(feature = "core")]
    {
        subs.extend(core_simd::subs(&args));
        subs.extend(core_asserting::subs(&args).into_iter().map(|s| s.with_div(4)));
    }
    let code = main_with("C14", "see MANIFEST / evidence rule", &args, subs);
    std::process::exit(code);
}
