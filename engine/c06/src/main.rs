//! C06 — not implemented yet.
fn main() {
    eprintln!("c06: not implemented");
    std::process::exit(2);
}
