//! C06 — column-major storage, column-vector action: every accessor and product agrees with a plain
//! `[[bits; R]; C]` model.
//!
//! glam-independent part: scalar trait, reference number types, generators.
use vcore::num::DD;
use vcore::*;

pub mod refn {
    use super::DD;
    pub trait Num: Copy + std::fmt::Debug + PartialEq {
        fn zero() -> Self;
        fn nadd(self, o: Self) -> Self;
        fn nsub(self, o: Self) -> Self;
        fn nmul(self, o: Self) -> Self;
        fn nabs(self) -> Self;
        fn f(self) -> f64;
    }
    impl Num for f64 {
        fn zero() -> f64 { 0.0 }
        fn nadd(self, o: f64) -> f64 { self + o }
        fn nsub(self, o: f64) -> f64 { self - o }
        fn nmul(self, o: f64) -> f64 { self * o }
        fn nabs(self) -> f64 { self.abs() }
        fn f(self) -> f64 { self }
    }
    impl Num for DD {
        fn zero() -> DD { DD::ZERO }
        fn nadd(self, o: DD) -> DD { self.add(o) }
        fn nsub(self, o: DD) -> DD { self.sub(o) }
        fn nmul(self, o: DD) -> DD { self.mul(o) }
        fn nabs(self) -> DD { self.abs() }
        fn f(self) -> f64 { self.hi + self.lo }
    }
    impl Num for i128 {
        fn zero() -> i128 { 0 }
        fn nadd(self, o: i128) -> i128 { self + o }
        fn nsub(self, o: i128) -> i128 { self - o }
        fn nmul(self, o: i128) -> i128 { self * o }
        fn nabs(self) -> i128 { self.abs() }
        fn f(self) -> f64 { self as f64 }
    }

    /// The model of a matrix or affine map: `cols` columns of `rows` entries, a[c*rows + r]; an affine map has
    /// cols = rows + 1 and its last column is the translation.
    /// y = L x (+ t): y[r] = Σ_c a[c*rows + r] x[c] (+ a[rows*rows + r])
    pub fn apply<X: Num>(rows: usize, lin_cols: usize, a: &[X], x: &[X], translate: bool) -> Vec<X> {
        let mut y = vec![X::zero(); rows];
        for r in 0..rows {
            let mut s = X::zero();
            for c in 0..lin_cols {
                s = s.nadd(a[c * rows + r].nmul(x[c]));
            }
            if translate {
                s = s.nadd(a[lin_cols * rows + r]);
            }
            y[r] = s;
        }
        y
    }
    /// composition C = A∘B in the same layout (square: matrix product; affine: linear = LA·LB, t = LA·tB + tA)
    pub fn compose<X: Num>(rows: usize, cols: usize, a: &[X], b: &[X]) -> Vec<X> {
        let affine = cols == rows + 1;
        let mut out = vec![X::zero(); cols * rows];
        for c in 0..cols {
            let col = &b[c * rows..(c + 1) * rows];
            let y = apply(rows, rows, a, col, affine && c == rows);
            out[c * rows..(c + 1) * rows].copy_from_slice(&y);
        }
        out
    }
}

pub trait Fl: Copy + PartialOrd + std::fmt::Debug + Default + 'static {
    type R: refn::Num;
    const BITS: u32;
    const U: f64;
    const TINY: f64;
    fn fb(w: u64) -> Self;
    fn tb(self) -> u64;
    fn r(self) -> Self::R;
    fn to64(self) -> f64;
    fn of64(x: f64) -> Self;
    fn ieq(a: Self, b: Self) -> bool;
}
impl Fl for f32 {
    type R = f64;
    const BITS: u32 = 32;
    const U: f64 = vcore::num::U32;
    const TINY: f64 = 1.5e-45;
    #[inline] fn fb(w: u64) -> f32 { f32::from_bits(w as u32) }
    #[inline] fn tb(self) -> u64 { self.to_bits() as u64 }
    #[inline] fn r(self) -> f64 { self as f64 }
    #[inline] fn to64(self) -> f64 { self as f64 }
    #[inline] fn of64(x: f64) -> f32 { x as f32 }
    #[inline] fn ieq(a: f32, b: f32) -> bool { (a.is_nan() && b.is_nan()) || a == b }
}
impl Fl for f64 {
    type R = DD;
    const BITS: u32 = 64;
    const U: f64 = vcore::num::U64;
    const TINY: f64 = 5e-324;
    #[inline] fn fb(w: u64) -> f64 { f64::from_bits(w) }
    #[inline] fn tb(self) -> u64 { self.to_bits() }
    #[inline] fn r(self) -> DD { DD::new(self) }
    #[inline] fn to64(self) -> f64 { self }
    #[inline] fn of64(x: f64) -> f64 { x }
    #[inline] fn ieq(a: f64, b: f64) -> bool { (a.is_nan() && b.is_nan()) || a == b }
}

pub mod gen {
    use proptest::prelude::*;
    use proptest::strategy::BoxedStrategy;
    use vcore::lattice;

    /// `n` entry bit patterns: independent lattice lanes, or pairwise distinct ordinary values
    /// (an arithmetic progression of floats from a random start) with up to two specials
    /// (NaN payloads, -0, inf, subnormal) injected at random positions.
    pub fn entries(bits: u32, n: usize) -> BoxedStrategy<Vec<u64>> {
        let lat = lattice::lanes(bits, n);
        let distinct = (-1000i32..1000, 1i32..50, 0u8..4, proptest::collection::vec((0usize..n, lattice::lat(bits)), 0..=2))
            .prop_map(move |(start, step, div, inj)| {
                let d = [1.0f64, 2.0, 4.0, 8.0][div as usize];
                let mut v: Vec<u64> = (0..n)
                    .map(|k| {
                        let x = (start as f64 + (k as i32 * step) as f64) / d;
                        if bits == 32 {
                            (x as f32).to_bits() as u64
                        } else {
                            x.to_bits()
                        }
                    })
                    .collect();
                for (i, b) in inj {
                    v[i] = b;
                }
                v
            })
            .boxed();
        prop_oneof![1 => lat, 1 => distinct].boxed()
    }

    /// `n` small integers in [-e, e]: pairwise distinct (a shuffled range) or independent
    pub fn ints(n: usize, e: i64) -> BoxedStrategy<Vec<i64>> {
        let all: Vec<i64> = (-e..=e).collect();
        let distinct = Just(all).prop_shuffle().prop_map(move |v| v[..n].to_vec()).boxed();
        let indep = proptest::collection::vec(-e..=e, n).boxed();
        prop_oneof![1 => distinct, 1 => indep].boxed()
    }

    /// `n` reals with log-uniform magnitudes 2^-6..2^6, random signs, occasional zero
    pub fn reals(n: usize) -> BoxedStrategy<Vec<f64>> {
        proptest::collection::vec((any::<bool>(), -6.0f64..6.0, 0u8..16), n)
            .prop_map(|v| v.iter().map(|(s, e, z)| if *z == 0 { 0.0 } else { 2f64.powf(*e) * if *s { -1.0 } else { 1.0 } }).collect::<Vec<f64>>())
            .boxed()
    }
}

mod simd {
    pub const VARIANT: &str = "simd";
    use ::glam_simd as glam;
    include!("suite.rs");
}
mod scalar {
    pub const VARIANT: &str = "scalar";
    use ::glam_scalar as glam;
    include!("suite.rs");
}
/// scalar-math with `glam-assert`: the second pass for the scalar copies (a quarter of the volume)
#[cfg(not(feature = "core"))]
mod scalar_asserting {
    pub const VARIANT: &str = "scalar+glam-assert";
    use ::glam_scalar_assert as glam;
    include!("suite.rs");
}
/// the same checks with `glam-assert` compiled in: the generated inputs satisfy the documented preconditions,
/// so a panic there is a failure
#[cfg(not(feature = "core"))]
mod asserting {
    pub const VARIANT: &str = "simd+glam-assert";
    use ::glam_assert as glam;
    include!("suite.rs");
}
#[cfg(feature = "core")]
mod core_simd {
    pub const VARIANT: &str = "core";
    use ::glam_core as glam;
    include!("suite.rs");
}
/// core-simd with `glam-assert`: the second pass for the portable-simd copies (a quarter of the volume)
#[cfg(feature = "core")]
mod core_asserting {
    pub const VARIANT: &str = "core+glam-assert";
    use ::glam_core_assert as glam;
    include!("suite.rs");
}

fn main() {
    let args = Args::parse();
    let mut subs = vec![];
    #[cfg(not(feature = "core"))]
    {
        subs.extend(simd::subs(&args));
        subs.extend(scalar::subs(&args));
        subs.extend(asserting::subs(&args));
        subs.extend(scalar_asserting::subs(&args).into_iter().map(|s| s.with_div(4)));
    }
    #[cfg(feature = "core")]
    {
        subs.extend(core_simd::subs(&args));
        subs.extend(core_asserting::subs(&args).into_iter().map(|s| s.with_div(4)));
    }
    let code = main_with("C06", "see MANIFEST / evidence rule", &args, subs);
    std::process::exit(code);
}
