// Included once per glam variant (`glam` is aliased by the including module).
use super::gen;
use super::refn::{self, Num};
use super::Fl;
#[allow(unused_imports)]
use glam::{
    Affine2, Affine3A, DAffine2, DAffine3, DMat2, DMat3, DMat4, DVec2, DVec3, DVec4, Mat2, Mat3, Mat3A, Mat4, Vec2, Vec3, Vec3A, Vec4,
};
use proptest::prelude::*;
use serde_json::json;
use vcore::lattice;
use vcore::*;

type Forms<X> = Vec<(&'static str, X)>;
/// (constructor name, i, j, dimension of the result, its to_cols_array)
type Minors<T> = Vec<(&'static str, usize, usize, Vec<T>)>;

/// Every access path of one matrix / affine type. `C` columns of `R` entries; affine types have C = R + 1.
pub trait Lay: Copy + 'static {
    type T: Fl;
    const C: usize;
    const R: usize;
    const TY: &'static str;
    fn from_arr(a: &[Self::T]) -> Self;
    fn to_arr(&self) -> Vec<Self::T>;
    fn from_2d(a: &[Self::T]) -> Self;
    fn to_2d(&self) -> Vec<Self::T>;
    fn from_slice(s: &[Self::T]) -> Self;
    fn write_slice(&self, s: &mut [Self::T]);
    fn from_cols_v(a: &[Self::T]) -> Self;
    fn axes(&self) -> Vec<Self::T>;
    fn set_axis(&mut self, c: usize, col: &[Self::T]);
    fn g_col(&self, _c: usize) -> Option<Vec<Self::T>> {
        None
    }
    fn set_col_mut(&mut self, _c: usize, _col: &[Self::T]) -> bool {
        false
    }
    fn g_row(&self, _r: usize) -> Option<Vec<Self::T>> {
        None
    }
    fn as_ref_arr(&self) -> Option<Vec<Self::T>> {
        None
    }
    fn as_mut_set(&mut self, _a: &[Self::T]) -> bool {
        false
    }
    fn from_diag(_d: &[Self::T]) -> Option<Self> {
        None
    }
    fn transp(&self) -> Option<Self> {
        None
    }
    fn minors(&self) -> Minors<Self::T> {
        vec![]
    }
    /// affine only: (linear part as to_cols_array of the `matrixN` field, `translation` field)
    fn parts(&self) -> Option<(Vec<Self::T>, Vec<Self::T>)> {
        None
    }
    /// matrix: M*v in operator and method form; affine: transform_point in every form
    fn act_forms(&self, v: &[Self::T]) -> Forms<Vec<Self::T>>;
    /// affine only: transform_vector in every form
    fn vec_forms(&self, _v: &[Self::T]) -> Forms<Vec<Self::T>> {
        vec![]
    }
    fn compose_forms(&self, o: &Self) -> Forms<Self>;
    /// affine types only: products with a general (projective) square matrix of the next size, both orders, as column arrays
    fn projective_forms(&self, _full: &[f64]) -> Forms<Vec<f64>> {
        vec![]
    }
    /// the same entries with arbitrary content in the padding lanes of 16-byte columns (Mat3A, Affine3A); None for packed types
    fn repad(&self, _junk: &[u64]) -> Option<Self> {
        None
    }
}

/// Mat3A / Affine3A columns rebuilt through `Vec3A::from_vec4` so that the padding lane differs from z
fn repad_v3a(v: Vec3A, junk: u64) -> Vec3A {
    Vec3A::from_vec4(Vec4::new(v.x, v.y, v.z, f32::from_bits(junk as u32)))
}

macro_rules! lay_mat {
    ($M:ident, $T:ident, $n:expr, $V:ident, $mulvec:ident, [$( $idx:tt $ax:ident ),*],
     asref = |$s:ident| $asref:expr, asmut = |$s2:ident, $a2:ident| $asmut:expr,
     minors = |$m:ident, $out:ident| $minors:block,
     extra = |$ma:ident, $va:ident, $fo:ident| $extra:block) => {
        impl Lay for $M {
            type T = $T;
            const C: usize = $n;
            const R: usize = $n;
            const TY: &'static str = stringify!($M);
            fn from_arr(a: &[$T]) -> Self {
                let mut x = [0.0 as $T; $n * $n];
                x.copy_from_slice(&a[..$n * $n]);
                $M::from_cols_array(&x)
            }
            fn to_arr(&self) -> Vec<$T> {
                self.to_cols_array().to_vec()
            }
            fn from_2d(a: &[$T]) -> Self {
                let mut x = [[0.0 as $T; $n]; $n];
                for c in 0..$n {
                    for r in 0..$n {
                        x[c][r] = a[c * $n + r];
                    }
                }
                $M::from_cols_array_2d(&x)
            }
            fn to_2d(&self) -> Vec<$T> {
                self.to_cols_array_2d().iter().flat_map(|c| c.iter().copied()).collect()
            }
            fn from_slice(s: &[$T]) -> Self {
                $M::from_cols_slice(s)
            }
            fn write_slice(&self, s: &mut [$T]) {
                self.write_cols_to_slice(s)
            }
            fn from_cols_v(a: &[$T]) -> Self {
                $M::from_cols($( $V::from_slice(&a[$idx * $n..($idx + 1) * $n]) ),*)
            }
            fn axes(&self) -> Vec<$T> {
                let mut o = vec![];
                $( o.extend_from_slice(&self.$ax.to_array()); )*
                o
            }
            fn set_axis(&mut self, c: usize, col: &[$T]) {
                let v = $V::from_slice(col);
                match c {
                    $( $idx => self.$ax = v, )*
                    _ => unreachable!(),
                }
            }
            fn g_col(&self, c: usize) -> Option<Vec<$T>> {
                Some($M::col(self, c).to_array().to_vec())
            }
            fn set_col_mut(&mut self, c: usize, col: &[$T]) -> bool {
                *self.col_mut(c) = $V::from_slice(col);
                true
            }
            fn g_row(&self, r: usize) -> Option<Vec<$T>> {
                Some($M::row(self, r).to_array().to_vec())
            }
            fn as_ref_arr(&self) -> Option<Vec<$T>> {
                let $s = self;
                $asref
            }
            fn as_mut_set(&mut self, a: &[$T]) -> bool {
                let $s2 = self;
                let $a2 = a;
                $asmut
            }
            fn from_diag(d: &[$T]) -> Option<Self> {
                Some($M::from_diagonal(<$M as DiagOf>::dv(d)))
            }
            fn transp(&self) -> Option<Self> {
                Some(self.transpose())
            }
            fn minors(&self) -> Minors<$T> {
                let $m = self;
                #[allow(unused_mut)]
                let mut $out: Minors<$T> = vec![];
                $minors
                $out
            }
            fn act_forms(&self, v: &[$T]) -> Forms<Vec<$T>> {
                let $ma = self;
                let $va = v;
                let vv = $V::from_slice(&v[..$n]);
                #[allow(unused_mut)]
                let mut $fo: Forms<Vec<$T>> = vec![("M*v", (*self * vv).to_array().to_vec()), (stringify!($mulvec), self.$mulvec(vv).to_array().to_vec())];
                $extra
                $fo
            }
            fn compose_forms(&self, o: &Self) -> Forms<Self> {
                let mut x = *self;
                x *= *o;
                let l = [*self, *o];
                vec![("A*B", *self * *o), ("A*=B", x), ("Product by value", l.iter().copied().product()), ("Product by ref", l.iter().product())]
            }
            fn repad(&self, junk: &[u64]) -> Option<Self> {
                <$M as Repad>::repad_impl(self, junk)
            }
        }
    };
}

/// per-type padding rebuild (only the SIMD-padded types return Some)
trait Repad: Sized {
    fn repad_impl(&self, _junk: &[u64]) -> Option<Self> {
        None
    }
}
impl Repad for Mat2 {}
impl Repad for Mat3 {}
impl Repad for Mat4 {}
impl Repad for DMat2 {}
impl Repad for DMat3 {}
impl Repad for DMat4 {}
impl Repad for Mat3A {
    fn repad_impl(&self, junk: &[u64]) -> Option<Self> {
        Some(Mat3A::from_cols(repad_v3a(self.x_axis, junk[0]), repad_v3a(self.y_axis, junk[1]), repad_v3a(self.z_axis, junk[2])))
    }
}

/// from_diagonal takes Vec3 for Mat3A (not Vec3A): the diagonal vector type per matrix type
trait DiagOf {
    type D;
    type S;
    fn dv(d: &[Self::S]) -> Self::D;
}
macro_rules! diag_of {
    ($M:ident, $T:ident, $D:ident) => {
        impl DiagOf for $M {
            type D = $D;
            type S = $T;
            fn dv(d: &[$T]) -> $D {
                $D::from_slice(d)
            }
        }
    };
}
diag_of!(Mat2, f32, Vec2);
diag_of!(Mat3, f32, Vec3);
diag_of!(Mat3A, f32, Vec3);
diag_of!(Mat4, f32, Vec4);
diag_of!(DMat2, f64, DVec2);
diag_of!(DMat3, f64, DVec3);
diag_of!(DMat4, f64, DVec4);

lay_mat!(Mat2, f32, 2, Vec2, mul_vec2, [0 x_axis, 1 y_axis],
    asref = |s| Some(AsRef::<[f32; 4]>::as_ref(s).to_vec()),
    asmut = |s, a| { AsMut::<[f32; 4]>::as_mut(s).copy_from_slice(a); true },
    minors = |_m, _o| {}, extra = |_m, _v, _o| {});
lay_mat!(Mat3, f32, 3, Vec3, mul_vec3, [0 x_axis, 1 y_axis, 2 z_axis],
    asref = |s| Some(AsRef::<[f32; 9]>::as_ref(s).to_vec()),
    asmut = |s, a| { AsMut::<[f32; 9]>::as_mut(s).copy_from_slice(a); true },
    minors = |m, o| {
        for i in 0..3 { for j in 0..3 { o.push(("Mat2::from_mat3_minor", i, j, Mat2::from_mat3_minor(*m, i, j).to_cols_array().to_vec())); } }
    },
    extra = |m, v, o| {
        let va = Vec3A::from_slice(&v[..3]);
        o.push(("Mat3*Vec3A", (*m * va).to_array().to_vec()));
    });
lay_mat!(Mat3A, f32, 3, Vec3A, mul_vec3a, [0 x_axis, 1 y_axis, 2 z_axis],
    asref = |_s| None, asmut = |_s, _a| false,
    minors = |m, o| {
        for i in 0..3 { for j in 0..3 { o.push(("Mat2::from_mat3a_minor", i, j, Mat2::from_mat3a_minor(*m, i, j).to_cols_array().to_vec())); } }
    },
    extra = |m, v, o| {
        let v3 = Vec3::from_slice(&v[..3]);
        o.push(("Mat3A*Vec3", (*m * v3).to_array().to_vec()));
    });
lay_mat!(Mat4, f32, 4, Vec4, mul_vec4, [0 x_axis, 1 y_axis, 2 z_axis, 3 w_axis],
    asref = |s| Some(AsRef::<[f32; 16]>::as_ref(s).to_vec()),
    asmut = |s, a| { AsMut::<[f32; 16]>::as_mut(s).copy_from_slice(a); true },
    minors = |m, o| {
        for i in 0..4 { for j in 0..4 {
            o.push(("Mat3::from_mat4_minor", i, j, Mat3::from_mat4_minor(*m, i, j).to_cols_array().to_vec()));
            o.push(("Mat3A::from_mat4_minor", i, j, Mat3A::from_mat4_minor(*m, i, j).to_cols_array().to_vec()));
        } }
    },
    extra = |_m, _v, _o| {});
lay_mat!(DMat2, f64, 2, DVec2, mul_vec2, [0 x_axis, 1 y_axis],
    asref = |s| Some(AsRef::<[f64; 4]>::as_ref(s).to_vec()),
    asmut = |s, a| { AsMut::<[f64; 4]>::as_mut(s).copy_from_slice(a); true },
    minors = |_m, _o| {}, extra = |_m, _v, _o| {});
lay_mat!(DMat3, f64, 3, DVec3, mul_vec3, [0 x_axis, 1 y_axis, 2 z_axis],
    asref = |s| Some(AsRef::<[f64; 9]>::as_ref(s).to_vec()),
    asmut = |s, a| { AsMut::<[f64; 9]>::as_mut(s).copy_from_slice(a); true },
    minors = |m, o| {
        for i in 0..3 { for j in 0..3 { o.push(("DMat2::from_mat3_minor", i, j, DMat2::from_mat3_minor(*m, i, j).to_cols_array().to_vec())); } }
    },
    extra = |_m, _v, _o| {});
lay_mat!(DMat4, f64, 4, DVec4, mul_vec4, [0 x_axis, 1 y_axis, 2 z_axis, 3 w_axis],
    asref = |s| Some(AsRef::<[f64; 16]>::as_ref(s).to_vec()),
    asmut = |s, a| { AsMut::<[f64; 16]>::as_mut(s).copy_from_slice(a); true },
    minors = |m, o| {
        for i in 0..4 { for j in 0..4 { o.push(("DMat3::from_mat4_minor", i, j, DMat3::from_mat4_minor(*m, i, j).to_cols_array().to_vec())); } }
    },
    extra = |_m, _v, _o| {});

macro_rules! lay_affine {
    ($A:ident, $T:ident, $n:expr, $V:ident, $mat:ident, [$( $idx:tt $ax:ident ),*],
     point = |$ap:ident, $pp:ident, $po:ident| $point:block, vector = |$av:ident, $pv:ident, $vo:ident| $vector:block) => {
        impl Lay for $A {
            type T = $T;
            const C: usize = $n + 1;
            const R: usize = $n;
            const TY: &'static str = stringify!($A);
            fn from_arr(a: &[$T]) -> Self {
                let mut x = [0.0 as $T; ($n + 1) * $n];
                x.copy_from_slice(&a[..($n + 1) * $n]);
                $A::from_cols_array(&x)
            }
            fn to_arr(&self) -> Vec<$T> {
                self.to_cols_array().to_vec()
            }
            fn from_2d(a: &[$T]) -> Self {
                let mut x = [[0.0 as $T; $n]; $n + 1];
                for c in 0..$n + 1 {
                    for r in 0..$n {
                        x[c][r] = a[c * $n + r];
                    }
                }
                $A::from_cols_array_2d(&x)
            }
            fn to_2d(&self) -> Vec<$T> {
                self.to_cols_array_2d().iter().flat_map(|c| c.iter().copied()).collect()
            }
            fn from_slice(s: &[$T]) -> Self {
                $A::from_cols_slice(s)
            }
            fn write_slice(&self, s: &mut [$T]) {
                self.write_cols_to_slice(s)
            }
            fn from_cols_v(a: &[$T]) -> Self {
                $A::from_cols($( $V::from_slice(&a[$idx * $n..($idx + 1) * $n]) ),*)
            }
            fn axes(&self) -> Vec<$T> {
                let mut o = vec![];
                $( o.extend_from_slice(&self.$ax.to_array()); )*
                o
            }
            fn set_axis(&mut self, c: usize, col: &[$T]) {
                let v = $V::from_slice(col);
                match c {
                    $( $idx => self.$ax = v, )*
                    _ => unreachable!(),
                }
            }
            fn parts(&self) -> Option<(Vec<$T>, Vec<$T>)> {
                Some((self.$mat.to_cols_array().to_vec(), self.translation.to_array().to_vec()))
            }
            fn act_forms(&self, p: &[$T]) -> Forms<Vec<$T>> {
                let $ap = self;
                let $pp = p;
                let mut $po: Forms<Vec<$T>> = vec![];
                $point
                $po
            }
            fn vec_forms(&self, p: &[$T]) -> Forms<Vec<$T>> {
                let $av = self;
                let $pv = p;
                let mut $vo: Forms<Vec<$T>> = vec![];
                $vector
                $vo
            }
            fn compose_forms(&self, o: &Self) -> Forms<Self> {
                let mut x = *self;
                x *= *o;
                let l = [*self, *o];
                let mut f = vec![("A*B", *self * *o), ("A*=B", x), ("Product by ref", l.iter().product())];
                f.extend(<$A as Mixed>::mixed(self, o));
                f
            }
            fn projective_forms(&self, full: &[f64]) -> Forms<Vec<f64>> {
                <$A as Mixed>::projective(self, full)
            }
            fn repad(&self, junk: &[u64]) -> Option<Self> {
                <$A as Repad>::repad_impl(self, junk)
            }
        }
    };
}
/// the mixed matrix / affine product operators, converted back to the affine type (exact re-packaging)
trait Mixed: Sized {
    fn mixed(&self, o: &Self) -> Forms<Self>;
    /// A * M and M * A for a general square matrix M one size up (column-major `full`)
    fn projective(&self, full: &[f64]) -> Forms<Vec<f64>>;
}
fn arr32<const N: usize>(a: &[f64]) -> [f32; N] {
    let mut x = [0.0f32; N];
    for i in 0..N {
        x[i] = a[i] as f32;
    }
    x
}
fn arr64<const N: usize>(a: &[f64]) -> [f64; N] {
    let mut x = [0.0f64; N];
    x.copy_from_slice(&a[..N]);
    x
}
fn w64(a: &[f32]) -> Vec<f64> {
    a.iter().map(|x| *x as f64).collect()
}
impl Mixed for Affine2 {
    fn mixed(&self, o: &Self) -> Forms<Self> {
        vec![
            ("Mat3::from(A) * B", Affine2::from_mat3(Mat3::from(*self) * *o)),
            ("A * Mat3::from(B)", Affine2::from_mat3(*self * Mat3::from(*o))),
            ("Mat3A::from(A) * B", Affine2::from_mat3a(Mat3A::from(*self) * *o)),
            ("A * Mat3A::from(B)", Affine2::from_mat3a(*self * Mat3A::from(*o))),
        ]
    }
    fn projective(&self, full: &[f64]) -> Forms<Vec<f64>> {
        let m = Mat3::from_cols_array(&arr32::<9>(full));
        let ma = Mat3A::from_cols_array(&arr32::<9>(full));
        vec![
            ("A * Mat3", w64(&(*self * m).to_cols_array())),
            ("Mat3 * A", w64(&(m * *self).to_cols_array())),
            ("A * Mat3A", w64(&(*self * ma).to_cols_array())),
            ("Mat3A * A", w64(&(ma * *self).to_cols_array())),
        ]
    }
}
impl Mixed for DAffine2 {
    fn mixed(&self, o: &Self) -> Forms<Self> {
        vec![("DMat3::from(A) * B", DAffine2::from_mat3(DMat3::from(*self) * *o)), ("A * DMat3::from(B)", DAffine2::from_mat3(*self * DMat3::from(*o)))]
    }
    fn projective(&self, full: &[f64]) -> Forms<Vec<f64>> {
        let m = DMat3::from_cols_array(&arr64::<9>(full));
        vec![("A * DMat3", (*self * m).to_cols_array().to_vec()), ("DMat3 * A", (m * *self).to_cols_array().to_vec())]
    }
}
impl Mixed for Affine3A {
    fn mixed(&self, o: &Self) -> Forms<Self> {
        vec![("Mat4::from(A) * B", Affine3A::from_mat4(Mat4::from(*self) * *o)), ("A * Mat4::from(B)", Affine3A::from_mat4(*self * Mat4::from(*o)))]
    }
    fn projective(&self, full: &[f64]) -> Forms<Vec<f64>> {
        let m = Mat4::from_cols_array(&arr32::<16>(full));
        vec![("A * Mat4", w64(&(*self * m).to_cols_array())), ("Mat4 * A", w64(&(m * *self).to_cols_array()))]
    }
}
impl Mixed for DAffine3 {
    fn mixed(&self, o: &Self) -> Forms<Self> {
        vec![("DMat4::from(A) * B", DAffine3::from_mat4(DMat4::from(*self) * *o)), ("A * DMat4::from(B)", DAffine3::from_mat4(*self * DMat4::from(*o)))]
    }
    fn projective(&self, full: &[f64]) -> Forms<Vec<f64>> {
        let m = DMat4::from_cols_array(&arr64::<16>(full));
        vec![("A * DMat4", (*self * m).to_cols_array().to_vec()), ("DMat4 * A", (m * *self).to_cols_array().to_vec())]
    }
}
impl Repad for Affine2 {}
impl Repad for DAffine2 {}
impl Repad for DAffine3 {}
impl Repad for Affine3A {
    fn repad_impl(&self, junk: &[u64]) -> Option<Self> {
        Some(Affine3A {
            matrix3: Mat3A::from_cols(repad_v3a(self.matrix3.x_axis, junk[0]), repad_v3a(self.matrix3.y_axis, junk[1]), repad_v3a(self.matrix3.z_axis, junk[2])),
            translation: repad_v3a(self.translation, junk[0] ^ junk[2]),
        })
    }
}
lay_affine!(Affine2, f32, 2, Vec2, matrix2, [0 x_axis, 1 y_axis, 2 z_axis],
    point = |a, p, o| { o.push(("transform_point2", a.transform_point2(Vec2::from_slice(p)).to_array().to_vec())); },
    vector = |a, p, o| { o.push(("transform_vector2", a.transform_vector2(Vec2::from_slice(p)).to_array().to_vec())); });
lay_affine!(DAffine2, f64, 2, DVec2, matrix2, [0 x_axis, 1 y_axis, 2 z_axis],
    point = |a, p, o| { o.push(("transform_point2", a.transform_point2(DVec2::from_slice(p)).to_array().to_vec())); },
    vector = |a, p, o| { o.push(("transform_vector2", a.transform_vector2(DVec2::from_slice(p)).to_array().to_vec())); });
lay_affine!(Affine3A, f32, 3, Vec3A, matrix3, [0 x_axis, 1 y_axis, 2 z_axis, 3 w_axis],
    point = |a, p, o| {
        o.push(("transform_point3", a.transform_point3(Vec3::from_slice(p)).to_array().to_vec()));
        o.push(("transform_point3a", a.transform_point3a(Vec3A::from_slice(p)).to_array().to_vec()));
    },
    vector = |a, p, o| {
        o.push(("transform_vector3", a.transform_vector3(Vec3::from_slice(p)).to_array().to_vec()));
        o.push(("transform_vector3a", a.transform_vector3a(Vec3A::from_slice(p)).to_array().to_vec()));
    });
lay_affine!(DAffine3, f64, 3, DVec3, matrix3, [0 x_axis, 1 y_axis, 2 z_axis, 3 w_axis],
    point = |a, p, o| { o.push(("transform_point3", a.transform_point3(DVec3::from_slice(p)).to_array().to_vec())); },
    vector = |a, p, o| { o.push(("transform_vector3", a.transform_vector3(DVec3::from_slice(p)).to_array().to_vec())); });

fn fail<L: Lay>(op: &str, form: &str, msg: String) -> Fail {
    Fail::new(format!("C06/{}/{}/{}", VARIANT, L::TY, op), format!("{op}[{form}]"), msg)
}
fn dec<T: Fl>(w: &[u64]) -> Vec<T> {
    w.iter().map(|b| T::fb(*b)).collect()
}
fn bits<T: Fl>(a: &[T]) -> Vec<u64> {
    a.iter().map(|x| x.tb()).collect()
}
fn hx(a: &[u64]) -> String {
    format!("{:x?}", a)
}

fn same_bits<L: Lay>(op: &str, form: &str, got: &[L::T], exp: &[u64], ctx: &dyn Fn() -> String) -> Result<(), Fail> {
    let g = bits(got);
    if g.len() != exp.len() || g != exp {
        return Err(fail::<L>(op, form, format!("got bits {} expected {}; {}", hx(&g), hx(exp), ctx())));
    }
    Ok(())
}

/// words: a[C*R] newcol[R] diag[C] garbage[3] — arbitrary bit patterns
fn check_access<L: Lay>(w: &[u64], t: &mut Tally) -> Result<(), Fail> {
    let (c_, r_) = (L::C, L::R);
    let ne = c_ * r_;
    let a = &w[0..ne];
    let newcol = &w[ne..ne + r_];
    let diag = &w[ne + r_..ne + r_ + c_];
    let garbage = &w[ne + r_ + c_..ne + r_ + c_ + 3];
    t.eval(1);
    let bitsz = <L::T as Fl>::BITS;
    let mut special = false;
    for x in a {
        let cl = lattice::class(bitsz, *x);
        t.class(cl);
        // NaN (payload) or -0 make a reordering or a recomputation visible
        special |= cl == "nan" || (*x == <L::T as Fl>::of64(-0.0).tb());
    }
    let mut srt = a.to_vec();
    srt.sort_unstable();
    srt.dedup();
    let distinct = srt.len() == ne;
    t.class(if distinct { "entries:pairwise-distinct" } else { "entries:with-repeats" });
    if distinct || special {
        t.nontrivial(mix(hash_str(L::TY), mix(hash_str(VARIANT), fnv(w))));
        if t.want_sample() {
            t.sample(json!({"type": L::TY, "variant": VARIANT, "kind": "bit patterns", "entries": format!("{:?}", dec::<L::T>(a)), "words": hexwords(w)}));
        }
    }
    let at: Vec<L::T> = dec(a);
    let ctx = || format!("model a[c*{}+r] = {:?} (bits {})", r_, at, hx(a));
    let m = L::from_arr(&at);
    // arrays, 2d arrays, slices
    same_bits::<L>("to_cols_array", "from_cols_array", &m.to_arr(), a, &ctx)?;
    same_bits::<L>("to_cols_array_2d", "from_cols_array", &m.to_2d(), a, &ctx)?;
    let m2 = L::from_2d(&at);
    same_bits::<L>("from_cols_array_2d", "to_cols_array", &m2.to_arr(), a, &ctx)?;
    same_bits::<L>("from_cols_array_2d", "to_cols_array_2d", &m2.to_2d(), a, &ctx)?;
    let mut ext = at.clone();
    ext.extend(dec::<L::T>(garbage));
    same_bits::<L>("from_cols_slice", "exact length", &L::from_slice(&at).to_arr(), a, &ctx)?;
    same_bits::<L>("from_cols_slice", "longer slice", &L::from_slice(&ext).to_arr(), a, &ctx)?;
    let mut buf: Vec<L::T> = dec(garbage).iter().cycle().take(ne + 3).copied().collect();
    let before = bits(&buf);
    m.write_slice(&mut buf);
    same_bits::<L>("write_cols_to_slice", "prefix", &buf[..ne], a, &ctx)?;
    same_bits::<L>("write_cols_to_slice", "beyond the prefix (must be untouched)", &buf[ne..], &before[ne..], &ctx)?;
    // AsRef / AsMut
    let rev: Vec<u64> = a.iter().rev().copied().collect();
    if let Some(x) = m.as_ref_arr() {
        same_bits::<L>("as_ref", "", &x, a, &ctx)?;
        let mut mm = m;
        mm.as_mut_set(&dec::<L::T>(&rev));
        same_bits::<L>("as_mut", "overwrite with the reversed array", &mm.to_arr(), &rev, &ctx)?;
    }
    // from_cols, axis fields
    let mc = L::from_cols_v(&at);
    same_bits::<L>("from_cols", "to_cols_array", &mc.to_arr(), a, &ctx)?;
    same_bits::<L>("x_axis..", "read", &m.axes(), a, &ctx)?;
    let nct: Vec<L::T> = dec(newcol);
    for c in 0..c_ {
        let mut exp = a.to_vec();
        exp[c * r_..(c + 1) * r_].copy_from_slice(newcol);
        let mut mm = m;
        mm.set_axis(c, &nct);
        same_bits::<L>("x_axis..", &format!("write axis {c}"), &mm.to_arr(), &exp, &ctx)?;
        // col / col_mut
        if let Some(col) = m.g_col(c) {
            same_bits::<L>("col", &format!("col({c})"), &col, &a[c * r_..(c + 1) * r_], &ctx)?;
            let mut mm = m;
            mm.set_col_mut(c, &nct);
            same_bits::<L>("col_mut", &format!("*col_mut({c}) = v"), &mm.to_arr(), &exp, &ctx)?;
        }
    }
    // row(r)[c] = a[c*R + r]
    for r in 0..r_ {
        if let Some(row) = m.g_row(r) {
            let exp: Vec<u64> = (0..c_).map(|c| a[c * r_ + r]).collect();
            same_bits::<L>("row", &format!("row({r})"), &row, &exp, &ctx)?;
        }
    }
    // from_diagonal: argument on the diagonal, zeros elsewhere
    let dt: Vec<L::T> = dec(diag);
    if let Some(md) = L::from_diag(&dt) {
        let g = md.to_arr();
        for c in 0..c_ {
            for r in 0..r_ {
                let x = g[c * r_ + r];
                let ok = if r == c { x.tb() == diag[c] } else { x.to64() == 0.0 };
                if !ok {
                    return Err(fail::<L>("from_diagonal", "", format!("entry (row {r}, col {c}) = {:?} (0x{:x}); diagonal = {:?}", x, x.tb(), dt)));
                }
            }
        }
    }
    // transpose swaps exactly
    if let Some(mt) = m.transp() {
        let exp: Vec<u64> = (0..ne).map(|i| a[(i % r_) * r_ + i / r_]).collect();
        same_bits::<L>("transpose", "", &mt.to_arr(), &exp, &ctx)?;
    }
    // the same value with junk in the padding lanes of its columns presents the same entries through every accessor
    if let Some(mp) = m.repad(garbage) {
        t.class("padded-columns");
        same_bits::<L>("to_cols_array", "padding lanes filled", &mp.to_arr(), a, &ctx)?;
        same_bits::<L>("to_cols_array_2d", "padding lanes filled", &mp.to_2d(), a, &ctx)?;
        same_bits::<L>("axis fields", "padding lanes filled", &mp.axes(), a, &ctx)?;
        if let Some(mt) = mp.transp() {
            let exp: Vec<u64> = (0..ne).map(|i| a[(i % r_) * r_ + i / r_]).collect();
            same_bits::<L>("transpose", "padding lanes filled", &mt.to_arr(), &exp, &ctx)?;
            if let Some(mtt) = mt.transp() {
                same_bits::<L>("transpose", "twice, padding lanes filled", &mtt.to_arr(), a, &ctx)?;
            }
        }
        for c in 0..c_ {
            if let Some(col) = mp.g_col(c) {
                same_bits::<L>("col", "padding lanes filled", &col, &a[c * r_..(c + 1) * r_], &ctx)?;
            }
        }
        for r in 0..r_ {
            if let Some(row) = mp.g_row(r) {
                let exp: Vec<u64> = (0..c_).map(|c| a[c * r_ + r]).collect();
                same_bits::<L>("row", "padding lanes filled", &row, &exp, &ctx)?;
            }
        }
        let mut buf: Vec<L::T> = dec::<L::T>(garbage).iter().cycle().take(ne + 2).copied().collect();
        mp.write_slice(&mut buf);
        same_bits::<L>("write_cols_to_slice", "padding lanes filled", &buf[..ne], a, &ctx)?;
        for (name, i, j, got) in mp.minors() {
            let mut exp = vec![];
            for c in 0..c_ {
                if c == i {
                    continue;
                }
                for r in 0..r_ {
                    if r == j {
                        continue;
                    }
                    exp.push(a[c * r_ + r]);
                }
            }
            if bits(&got) != exp {
                return Err(fail::<L>("minor", name, format!("({i},{j}) with padding lanes filled: got {} expected {}; {}", hx(&bits(&got)), hx(&exp), ctx())));
            }
        }
    }
    // minors drop exactly column i and row j
    for (name, i, j, got) in m.minors() {
        let mut exp = vec![];
        for c in 0..c_ {
            if c == i {
                continue;
            }
            for r in 0..r_ {
                if r == j {
                    continue;
                }
                exp.push(a[c * r_ + r]);
            }
        }
        same_bits::<L>("minor", &format!("{name}(m, {i}, {j})"), &got, &exp, &ctx)?;
    }
    // affine: linear part in the leading columns, translation last
    if let Some((lin, tr)) = m.parts() {
        same_bits::<L>("affine-parts", "matrixN field", &lin, &a[..r_ * r_], &ctx)?;
        same_bits::<L>("affine-parts", "translation field", &tr, &a[r_ * r_..], &ctx)?;
    }
    Ok(())
}

fn affine<L: Lay>() -> bool {
    L::C == L::R + 1
}

/// words: A[C*R] B[C*R] v[R] as small integers: everything is exact
fn check_product_int<L: Lay>(w: &[u64], t: &mut Tally) -> Result<(), Fail> {
    let (c_, r_) = (L::C, L::R);
    let ne = c_ * r_;
    let ai: Vec<i128> = w[0..ne].iter().map(|x| *x as i64 as i128).collect();
    let bi: Vec<i128> = w[ne..2 * ne].iter().map(|x| *x as i64 as i128).collect();
    let vi: Vec<i128> = w[2 * ne..2 * ne + r_].iter().map(|x| *x as i64 as i128).collect();
    t.eval(1);
    let mut srt = ai.clone();
    srt.sort_unstable();
    srt.dedup();
    let distinct = srt.len() == ne;
    t.class(if distinct { "entries:pairwise-distinct" } else { "entries:with-repeats" });
    if distinct {
        t.nontrivial(mix(hash_str(L::TY), mix(hash_str(VARIANT), fnv(w))));
        if t.want_sample() {
            t.sample(json!({"type": L::TY, "variant": VARIANT, "kind": "integer lattice", "A": ai.iter().map(|x| *x as i64).collect::<Vec<_>>(), "B": bi.iter().map(|x| *x as i64).collect::<Vec<_>>(), "v": vi.iter().map(|x| *x as i64).collect::<Vec<_>>()}));
        }
    }
    let tt = |x: &[i128]| -> Vec<L::T> { x.iter().map(|v| <L::T as Fl>::of64(*v as f64)).collect() };
    let (at, bt, vt) = (tt(&ai), tt(&bi), tt(&vi));
    let (ma, mb) = (L::from_arr(&at), L::from_arr(&bt));
    let ctx = || format!("A(cols)={:?} B(cols)={:?} v={:?}", ai, bi, vi);
    let exact = |op: &str, form: &str, got: &[L::T], exp: &[i128]| -> Result<(), Fail> {
        for i in 0..exp.len() {
            if !(got[i].to64() == exp[i] as f64) {
                return Err(fail::<L>(op, form, format!("component {i}: got {:?} expected exactly {} (all: got {:?} expected {:?}); {}", got[i], exp[i], got, exp, ctx())));
            }
        }
        Ok(())
    };
    let aff = affine::<L>();
    // M*v = Σ v[c]·col(c)  /  transform_point = linear*p + translation
    let av = refn::apply(r_, r_, &ai, &vi, aff);
    for (form, g) in ma.act_forms(&vt) {
        exact(if aff { "transform_point" } else { "mul_vec" }, form, &g, &av)?;
    }
    // the same sum built from the columns glam hands out
    if !aff {
        let mut s = vec![0i128; r_];
        for c in 0..c_ {
            let col = ma.g_col(c).unwrap();
            for r in 0..r_ {
                s[r] += vi[c] * col[r].to64() as i128;
            }
        }
        if s != av {
            return Err(fail::<L>("mul_vec", "Σ v[c]·col(c)", format!("Σ v[c]·col(c) = {:?} but the model gives {:?}; {}", s, av, ctx())));
        }
    }
    // transform_vector ignores the translation: equals transform_point of the same map with zero translation, bit for bit
    if aff {
        let lv = refn::apply(r_, r_, &ai, &vi, false);
        let mut a0 = at.clone();
        for x in a0[r_ * r_..].iter_mut() {
            *x = <L::T as Fl>::of64(0.0);
        }
        let m0 = L::from_arr(&a0);
        let p0 = m0.act_forms(&vt);
        let v0 = m0.vec_forms(&vt);
        for (k, (form, g)) in ma.vec_forms(&vt).into_iter().enumerate() {
            exact("transform_vector", form, &g, &lv)?;
            for i in 0..r_ {
                if !<L::T as Fl>::ieq(g[i], p0[k].1[i]) || g[i].tb() != v0[k].1[i].tb() {
                    return Err(fail::<L>("transform_vector", form, format!("component {i}: {:?} but with zero translation transform_point gives {:?} and transform_vector {:?}; {}", g[i], p0[k].1[i], v0[k].1[i], ctx())));
                }
            }
        }
    }
    // (A*B)*v = A*(B*v), and A*B itself
    let ab = refn::compose(r_, c_, &ai, &bi);
    let abv = refn::apply(r_, r_, &ab, &vi, aff);
    let bv = mb.act_forms(&vt)[0].1.clone();
    let rhs = ma.act_forms(&bv)[0].1.clone();
    exact("compose", "A*(B*v)", &rhs, &abv)?;
    for (form, mab) in ma.compose_forms(&mb) {
        exact("compose", &format!("{form} entries"), &mab.to_arr(), &ab)?;
        for (f2, g) in mab.act_forms(&vt) {
            exact("compose", &format!("({form})*v via {f2}"), &g, &abv)?;
        }
    }
    // an affine map times a general (projective) matrix one size up, and the reverse: the full matrix product
    if aff {
        let n1 = c_; // = R + 1
        let emb = |x: &[i128], bottom: &[i128]| -> Vec<i128> {
            let mut m = vec![0i128; n1 * n1];
            for c in 0..n1 {
                for r in 0..r_ {
                    m[c * n1 + r] = x[c * r_ + r];
                }
                m[c * n1 + r_] = bottom[c];
            }
            m
        };
        let mut bottom_a = vec![0i128; n1];
        bottom_a[r_] = 1;
        // bottom row of the general matrix: taken from v and A so that it is rarely (0, .., 0, 1)
        let bottom_m: Vec<i128> = (0..n1).map(|c| if c < r_ { vi[c] } else { ai[0] - vi[0] + 1 }).collect();
        let af = emb(&ai, &bottom_a);
        let mf = emb(&bi, &bottom_m);
        t.class(if bottom_m[..r_].iter().any(|x| *x != 0) { "projective-rhs:bottom row not (0,..,0,w)" } else { "projective-rhs:affine-like" });
        let mm = |x: &[i128], y: &[i128]| -> Vec<i128> {
            let mut o = vec![0i128; n1 * n1];
            for c in 0..n1 {
                for r in 0..n1 {
                    o[c * n1 + r] = (0..n1).map(|k| x[k * n1 + r] * y[c * n1 + k]).sum();
                }
            }
            o
        };
        let a_m = mm(&af, &mf);
        let m_a = mm(&mf, &af);
        let mf64: Vec<f64> = mf.iter().map(|x| *x as f64).collect();
        for (form, g) in ma.projective_forms(&mf64) {
            let e = if form.starts_with("A *") { &a_m } else { &m_a };
            for i in 0..n1 * n1 {
                if !(g[i] == e[i] as f64) {
                    return Err(fail::<L>("compose", form, format!("entry {i} (column-major) of {form}: got {:?} expected exactly {} (M(cols)={:?}, got {:?} expected {:?}); {}", g[i], e[i], mf, g, e, ctx())));
                }
            }
        }
    }
    Ok(())
}

/// words: A[C*R] B[C*R] v[R] as float bits (finite, well scaled): k·u·S
fn check_product_real<L: Lay>(w: &[u64], t: &mut Tally) -> Result<(), Fail> {
    let (c_, r_) = (L::C, L::R);
    let ne = c_ * r_;
    let u = <L::T as Fl>::U;
    let tiny = <L::T as Fl>::TINY;
    let at: Vec<L::T> = dec(&w[0..ne]);
    let bt: Vec<L::T> = dec(&w[ne..2 * ne]);
    let vt: Vec<L::T> = dec(&w[2 * ne..2 * ne + r_]);
    t.eval(1);
    let mut srt = w[0..ne].to_vec();
    srt.sort_unstable();
    srt.dedup();
    let distinct = srt.len() == ne;
    t.class(if distinct { "entries:pairwise-distinct" } else { "entries:with-repeats" });
    if distinct {
        t.nontrivial(mix(hash_str(L::TY), mix(hash_str(VARIANT), fnv(w))));
        if t.want_sample() {
            t.sample(json!({"type": L::TY, "variant": VARIANT, "kind": "real", "A": format!("{:?}", at), "B": format!("{:?}", bt), "v": format!("{:?}", vt), "words": hexwords(w)}));
        }
    }
    type Rr<L> = <<L as Lay>::T as Fl>::R;
    let rr = |x: &[L::T]| -> Vec<Rr<L>> { x.iter().map(|v| v.r()).collect() };
    let ab_ = |x: &[Rr<L>]| -> Vec<Rr<L>> { x.iter().map(|v| v.nabs()).collect() };
    let (ra, rb, rv) = (rr(&at), rr(&bt), rr(&vt));
    let (aa, abb, avv) = (ab_(&ra), ab_(&rb), ab_(&rv));
    let (ma, mb) = (L::from_arr(&at), L::from_arr(&bt));
    let ctx = || format!("A(cols)={:?} B(cols)={:?} v={:?}", at, bt, vt);
    let aff = affine::<L>();
    let n = r_ as f64;
    let close = |op: &str, form: &str, key: &str, got: &[L::T], exp: &[Rr<L>], s: &[Rr<L>], k: f64, t: &mut Tally| -> Result<(), Fail> {
        for i in 0..exp.len() {
            let err = exp[i].nsub(got[i].r()).nabs().f();
            let tol = k * (u * s[i].f() + tiny);
            if !(err <= tol) {
                return Err(fail::<L>(op, form, format!("component {i}: got {:?} reference {:e}, |diff|={:e} > tol={:e} ({}·u·Σ|terms|); {}", got[i], exp[i].f(), err, tol, k, ctx())));
            }
            if tol > 0.0 {
                t.ratio(key, err / tol);
            }
        }
        Ok(())
    };
    // M*v / transform_point: n (+1) operations on the longest path, +2
    let k1 = n + 2.0 + if aff { 1.0 } else { 0.0 };
    let av = refn::apply(r_, r_, &ra, &rv, aff);
    let sv = refn::apply(r_, r_, &aa, &avv, aff);
    for (form, g) in ma.act_forms(&vt) {
        close(if aff { "transform_point" } else { "mul_vec" }, form, "act", &g, &av, &sv, k1, t)?;
    }
    if aff {
        let lv = refn::apply(r_, r_, &ra, &rv, false);
        let slv = refn::apply(r_, r_, &aa, &avv, false);
        let mut a0 = at.clone();
        for x in a0[r_ * r_..].iter_mut() {
            *x = <L::T as Fl>::of64(0.0);
        }
        let m0 = L::from_arr(&a0);
        let p0 = m0.act_forms(&vt);
        let v0 = m0.vec_forms(&vt);
        for (k, (form, g)) in ma.vec_forms(&vt).into_iter().enumerate() {
            close("transform_vector", form, "transform_vector", &g, &lv, &slv, n + 2.0, t)?;
            for i in 0..r_ {
                if !<L::T as Fl>::ieq(g[i], p0[k].1[i]) || g[i].tb() != v0[k].1[i].tb() {
                    return Err(fail::<L>("transform_vector", form, format!("component {i}: {:?} but with zero translation transform_point gives {:?} and transform_vector {:?}; {}", g[i], p0[k].1[i], v0[k].1[i], ctx())));
                }
            }
        }
    }
    // (A*B)*v and A*(B*v) against the exact composite: two chained sums of products
    let k2 = 2.0 * n + 2.0 + if aff { 2.0 } else { 0.0 };
    let ab = refn::compose(r_, c_, &ra, &rb);
    let sab = refn::compose(r_, c_, &aa, &abb);
    let abv = refn::apply(r_, r_, &ab, &rv, aff);
    let sabv = refn::apply(r_, r_, &sab, &avv, aff);
    let bv = mb.act_forms(&vt)[0].1.clone();
    let rhs = ma.act_forms(&bv)[0].1.clone();
    close("compose", "A*(B*v)", "compose", &rhs, &abv, &sabv, k2, t)?;
    for (form, mab) in ma.compose_forms(&mb) {
        close("compose", &format!("{form} entries"), "compose-entries", &mab.to_arr(), &ab, &sab, k1, t)?;
        let lhs = mab.act_forms(&vt)[0].1.clone();
        close("compose", &format!("({form})*v"), "compose", &lhs, &abv, &sabv, k2, t)?;
        // the law itself: both sides are within k2·u·S of the same exact value
        for i in 0..r_ {
            let d = (lhs[i].to64() - rhs[i].to64()).abs();
            let tol = 2.0 * k2 * (u * sabv[i].f() + tiny);
            if !(d <= tol) {
                return Err(fail::<L>("compose", "(A*B)*v = A*(B*v)", format!("component {i}: ({form})*v = {:?}, A*(B*v) = {:?}, |diff|={:e} > {:e}; {}", lhs[i], rhs[i], d, tol, ctx())));
            }
            if tol > 0.0 {
                t.ratio("law:(A*B)*v = A*(B*v)", d / tol);
            }
        }
    }
    Ok(())
}

fn strat_access<L: Lay>() -> BoxedStrategy<Vec<u64>> {
    let bitsz = <L::T as Fl>::BITS;
    (gen::entries(bitsz, L::C * L::R), lattice::lanes(bitsz, L::R + L::C + 3))
        .prop_map(|(mut a, rest)| {
            a.extend(rest);
            a
        })
        .boxed()
}
fn strat_int<L: Lay>() -> BoxedStrategy<Vec<u64>> {
    let ne = L::C * L::R;
    (gen::ints(ne, 16), gen::ints(ne, 16), gen::ints(L::R, 16))
        .prop_map(|(a, b, v)| a.iter().chain(b.iter()).chain(v.iter()).map(|x| *x as u64).collect::<Vec<u64>>())
        .boxed()
}
fn strat_real<L: Lay>() -> BoxedStrategy<Vec<u64>> {
    let ne = L::C * L::R;
    (gen::reals(ne), gen::reals(ne), gen::reals(L::R))
        .prop_map(|(a, b, v)| a.iter().chain(b.iter()).chain(v.iter()).map(|x| <L::T as Fl>::of64(*x).tb()).collect::<Vec<u64>>())
        .boxed()
}

fn push_subs<'a, L: Lay>(out: &mut Vec<SubCheck<'a>>) {
    out.push(SubCheck::new(
        format!("access/{}/{}", L::TY, VARIANT),
        2,
        |env: &mut Env| {
            let n = env.cases(20_000, 50);
            env.prop("access", n, strat_access::<L>(), &check_access::<L>);
        },
        check_access::<L>,
    ));
    out.push(SubCheck::new(
        format!("product-int/{}/{}", L::TY, VARIANT),
        2,
        |env: &mut Env| {
            let n = env.cases(20_000, 50);
            env.prop("product-int", n, strat_int::<L>(), &check_product_int::<L>);
        },
        check_product_int::<L>,
    ));
    out.push(SubCheck::new(
        format!("product-real/{}/{}", L::TY, VARIANT),
        2,
        |env: &mut Env| {
            let n = env.cases(20_000, 50);
            env.prop("product-real", n, strat_real::<L>(), &check_product_real::<L>);
        },
        check_product_real::<L>,
    ));
}

pub fn subs<'a>(_args: &Args) -> Vec<SubCheck<'a>> {
    let mut out = vec![];
    push_subs::<Mat2>(&mut out);
    push_subs::<Mat3>(&mut out);
    push_subs::<Mat3A>(&mut out);
    push_subs::<Mat4>(&mut out);
    push_subs::<DMat2>(&mut out);
    push_subs::<DMat3>(&mut out);
    push_subs::<DMat4>(&mut out);
    push_subs::<Affine2>(&mut out);
    push_subs::<Affine3A>(&mut out);
    push_subs::<DAffine2>(&mut out);
    push_subs::<DAffine3>(&mut out);
    out
}
