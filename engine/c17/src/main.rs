//! C17 — all element access paths of a vector or quaternion see the same N lanes.
use vcore::*;

/// One lane as a canonical word (float bit pattern / two's complement truncated to the width).
pub trait Lane: Copy + PartialEq + Default + std::fmt::Debug + std::fmt::Display + 'static {
    const BITS: u32;
    const FLOAT: bool;
    const SIGNED: bool;
    fn fb(w: u64) -> Self;
    fn tb(self) -> u64;
    /// parse one number printed by Debug / Display
    fn parse(s: &str) -> Option<Self>;
    /// IEEE value equality (NaN ~ NaN, -0 ~ +0) / integer equality
    fn ieq(a: Self, b: Self) -> bool;
    fn isnan(self) -> bool;
    fn one() -> Self;
    fn neg_one() -> Self;
    fn minv() -> Self;
    fn maxv() -> Self;
    fn nan() -> Self;
    fn inf() -> Self;
    fn neg_inf() -> Self;
}
macro_rules! float_lane {
    ($t:ident, $u:ty, $bits:expr) => {
        impl Lane for $t {
            const BITS: u32 = $bits;
            const FLOAT: bool = true;
            const SIGNED: bool = true;
            #[inline]
            fn fb(w: u64) -> $t {
                <$t>::from_bits(w as $u)
            }
            #[inline]
            fn tb(self) -> u64 {
                self.to_bits() as u64
            }
            fn parse(s: &str) -> Option<$t> {
                s.parse::<$t>().ok()
            }
            #[inline]
            fn ieq(a: $t, b: $t) -> bool {
                (a.is_nan() && b.is_nan()) || a == b
            }
            #[inline]
            fn isnan(self) -> bool {
                self.is_nan()
            }
            fn one() -> $t {
                1.0
            }
            fn neg_one() -> $t {
                -1.0
            }
            fn minv() -> $t {
                $t::MIN
            }
            fn maxv() -> $t {
                $t::MAX
            }
            fn nan() -> $t {
                $t::NAN
            }
            fn inf() -> $t {
                $t::INFINITY
            }
            fn neg_inf() -> $t {
                $t::NEG_INFINITY
            }
        }
    };
}
float_lane!(f32, u32, 32);
float_lane!(f64, u64, 64);
macro_rules! int_lane {
    ($t:ident, $u:ty, $bits:expr, $signed:expr) => {
        impl Lane for $t {
            const BITS: u32 = $bits;
            const FLOAT: bool = false;
            const SIGNED: bool = $signed;
            #[inline]
            fn fb(w: u64) -> $t {
                w as $u as $t
            }
            #[inline]
            fn tb(self) -> u64 {
                self as $u as u64
            }
            fn parse(s: &str) -> Option<$t> {
                s.parse::<$t>().ok()
            }
            #[inline]
            fn ieq(a: $t, b: $t) -> bool {
                a == b
            }
            #[inline]
            fn isnan(self) -> bool {
                false
            }
            fn one() -> $t {
                1
            }
            fn neg_one() -> $t {
                (0 as $t).wrapping_sub(1)
            }
            fn minv() -> $t {
                $t::MIN
            }
            fn maxv() -> $t {
                $t::MAX
            }
            fn nan() -> $t {
                0
            }
            fn inf() -> $t {
                0
            }
            fn neg_inf() -> $t {
                0
            }
        }
    };
}
int_lane!(i8, u8, 8, true);
int_lane!(u8, u8, 8, false);
int_lane!(i16, u16, 16, true);
int_lane!(u16, u16, 16, false);
int_lane!(i32, u32, 32, true);
int_lane!(u32, u32, 32, false);
int_lane!(i64, u64, 64, true);
int_lane!(u64, u64, 64, false);
int_lane!(usize, u64, 64, false);

/// the numbers inside the outermost (...) or [...] of a Debug / Display text
pub fn parse_lanes<S: Lane>(s: &str) -> Option<Vec<S>> {
    let a = s.find(|c| c == '(' || c == '[')?;
    let b = s.rfind(|c| c == ')' || c == ']')?;
    if b <= a {
        return None;
    }
    s[a + 1..b].split(',').map(|t| t.trim()).filter(|t| !t.is_empty()).map(S::parse).collect()
}
pub fn text_tokens(s: &str) -> Option<Vec<&str>> {
    let a = s.find(|c| c == '(' || c == '[')?;
    let b = s.rfind(|c| c == ')' || c == ']')?;
    if b <= a {
        return None;
    }
    Some(s[a + 1..b].split(',').map(|t| t.trim()).filter(|t| !t.is_empty()).collect())
}

#[cfg(not(feature = "core"))]
pub mod simd {
    pub const VARIANT: &str = "simd";
    use ::glam_simd as glam;
    include!("suite.rs");
}
/// the same checks with `glam-assert` compiled in: none of these operations has a documented precondition, so a
/// panic there is a failure
#[cfg(not(feature = "core"))]
mod asserting {
    pub const VARIANT: &str = "simd+glam-assert";
    use ::glam_assert as glam;
    include!("suite.rs");
}
#[cfg(not(feature = "core"))]
mod scalar {
    pub const VARIANT: &str = "scalar";
    use ::glam_scalar as glam;
    include!("suite.rs");
}
/// scalar-math with `glam-assert`: the second pass for the scalar copies (a quarter of the volume)
#[cfg(not(feature = "core"))]
mod scalar_asserting {
    pub const VARIANT: &str = "scalar+glam-assert";
    use ::glam_scalar_assert as glam;
    include!("suite.rs");
}
#[cfg(feature = "core")]
mod core_simd {
    pub const VARIANT: &str = "core";
    use ::glam_core as glam;
    include!("suite.rs");
}
/// core-simd with `glam-assert`: the second pass for the portable-simd copies (a quarter of the volume)
#[cfg(feature = "core")]
mod core_asserting {
    pub const VARIANT: &str = "core+glam-assert";
    use ::glam_core_assert as glam;
    include!("suite.rs");
}

fn main() {
    let args = Args::parse();
    let mut subs = vec![];
    #[cfg(not(feature = "core"))]
    {
        subs.extend(simd::subs(&args));
        subs.extend(scalar::subs(&args));
        subs.extend(asserting::subs(&args));
        subs.extend(scalar_asserting::subs(&args).into_iter().map(|s| s.with_div(4)));
    }
    #[cfg(feature = "core")]
    {
        subs.extend(core_simd::subs(&args));
        subs.extend(core_asserting::subs(&args).into_iter().map(|s| s.with_div(4)));
    }
    let code = main_with("C17", "see MANIFEST / evidence rule", &args, subs);
    std::process::exit(code);
}
