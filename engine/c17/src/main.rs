//! C17 — not implemented yet.
fn main() {
    eprintln!("c17: not implemented");
    std::process::exit(2);
}
