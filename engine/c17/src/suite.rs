// Included once per glam variant (`glam` is aliased by the including module).
#[allow(unused_imports)]
use super::{parse_lanes, text_tokens, Lane};
use proptest::prelude::*;
use serde_json::json;
use vcore::lattice;
use vcore::*;

// kind: vec | vec3a | quat          cls: float | sint | uint
macro_rules! if_vec {
    (vec, $($t:tt)*) => { $($t)* };
    (vec3a, $($t:tt)*) => { $($t)* };
    (quat, $($t:tt)*) => {};
}
macro_rules! if_vec3a {
    (vec3a, $($t:tt)*) => { $($t)* };
    ($o:tt, $($t:tt)*) => {};
}
macro_rules! if_quat {
    (quat, $($t:tt)*) => { $($t)* };
    ($o:tt, $($t:tt)*) => {};
}
macro_rules! if_float {
    (float, $($t:tt)*) => { $($t)* };
    ($o:tt, $($t:tt)*) => {};
}
macro_rules! if_signed {
    (uint, $($t:tt)*) => {};
    ($o:tt, $($t:tt)*) => { $($t)* };
}
macro_rules! rep {
    ($i:tt, $s:ty) => {
        $s
    };
}

/// words per op record: code (0 construct, 1 lane write, 2 read-and-rebuild), path, k, four value words
pub const REC: usize = 7;

fn lane_strat(bits: u32, float: bool, signed: bool) -> BoxedStrategy<u64> {
    if float {
        lattice::lat(bits)
    } else {
        lattice::lat_int(bits, signed)
    }
}

macro_rules! acc_type {
    ($m:ident, $T:ident, $S:ident, $N:tt, [$($f:ident)+], [$($i:tt)+], [$($wf:ident)+], [$($ax:ident)+], [$($nax:ident)+], $free:ident, $kind:tt, $cls:tt, $V4:ident) => {
        pub mod $m {
            use super::*;
            pub type V = glam::$T;
            pub type S = $S;
            pub type Tup = ($(rep!($i, S)),+);
            pub const N: usize = $N;
            pub const TY: &str = stringify!($T);
            pub const BITS: u32 = <S as Lane>::BITS;
            pub const FLOAT: bool = <S as Lane>::FLOAT;
            pub const SIGNED: bool = <S as Lane>::SIGNED;

            /// constructor paths (lane-preserving ones first) and how many of them are lane-preserving
            #[allow(unreachable_code)]
            pub fn cons_paths() -> (&'static [&'static str], usize) {
                if_quat! {$kind, return (&["from_xyzw", "from_array", "from_slice", "free-fn", "from_vec4", "const", "Default"], 5); }
                if_vec3a! {$kind, return (&["new", "from_array", "from_slice", "From<array>", "From<tuple>", "free-fn", "AsMut-assign", "from_vec4", "splat", "const", "Default"], 8); }
                if_vec! {$kind, return (&["new", "from_array", "from_slice", "From<array>", "From<tuple>", "free-fn", "AsMut-assign", "splat", "const", "Default"], 7); }
                unreachable!()
            }
            #[allow(unreachable_code)]
            pub fn write_paths() -> &'static [&'static str] {
                if_quat! {$kind, return &["field"]; }
                if_vec! {$kind, return &["field", "IndexMut", "AsMut", "with_"]; }
                unreachable!()
            }
            /// bit-exact read paths
            #[allow(unreachable_code)]
            pub fn read_paths() -> &'static [&'static str] {
                if_quat! {$kind, return &["fields", "to_array", "write_to_slice", "Into<array>", "Into<tuple>", "AsRef", "Into<Vec4>"]; }
                if_vec! {$kind, return &["fields", "Index", "to_array", "write_to_slice", "Into<array>", "Into<tuple>", "AsRef"]; }
                unreachable!()
            }

            fn bits_of(a: [S; N]) -> [u64; N] {
                let mut m = [0u64; N];
                for i in 0..N {
                    m[i] = a[i].tb();
                }
                m
            }
            #[allow(unused_mut)]
            fn default_model() -> [u64; N] {
                let mut m = [0u64; N];
                if_quat! {$kind, m[3] = S::one().tb(); }
                m
            }

            /// the named constants with their documented lane values
            pub fn consts() -> &'static Vec<(String, V, [u64; N])> {
                static TABLE: std::sync::OnceLock<Vec<(String, V, [u64; N])>> = std::sync::OnceLock::new();
                TABLE.get_or_init(|| {
                    let mut c: Vec<(String, V, [u64; N])> = vec![];
                    if_vec! {$kind,
                        c.push(("ZERO".into(), V::ZERO, [0u64; N]));
                        c.push(("ONE".into(), V::ONE, [S::one().tb(); N]));
                        c.push(("MIN".into(), V::MIN, [S::minv().tb(); N]));
                        c.push(("MAX".into(), V::MAX, [S::maxv().tb(); N]));
                        $(
                            let mut m = [0u64; N];
                            m[$i] = S::one().tb();
                            c.push((stringify!($ax).into(), V::$ax, m));
                            c.push((format!("AXES[{}]", $i), V::AXES[$i], m));
                        )+
                        if_signed! {$cls,
                            c.push(("NEG_ONE".into(), V::NEG_ONE, [S::neg_one().tb(); N]));
                            $(
                                let mut m = [0u64; N];
                                m[$i] = S::neg_one().tb();
                                c.push((stringify!($nax).into(), V::$nax, m));
                            )+
                        }
                        if_float! {$cls,
                            c.push(("NAN".into(), V::NAN, [S::nan().tb(); N]));
                            c.push(("INFINITY".into(), V::INFINITY, [S::inf().tb(); N]));
                            c.push(("NEG_INFINITY".into(), V::NEG_INFINITY, [S::neg_inf().tb(); N]));
                        }
                    }
                    if_quat! {$kind,
                        c.push(("IDENTITY".into(), V::IDENTITY, default_model()));
                        c.push(("NAN".into(), V::NAN, [S::nan().tb(); N]));
                    }
                    c
                })
            }

            /// build a value through constructor path `name`; returns it with the lanes it must now have
            #[allow(unused_variables)]
            fn construct(name: &str, a4: [S; 4], k: usize, cur: V) -> (V, [u64; N]) {
                let an: [S; N] = [$(a4[$i]),+];
                let model = bits_of(an);
                match name {
                    "from_array" => return (V::from_array(an), model),
                    "from_slice" => {
                        // a slice longer than N: only the first N elements count; the slice starts at any element offset of a
                        // 16-byte aligned buffer (from_slice has no alignment precondition)
                        #[repr(align(16))]
                        struct Al([S; 12]);
                        let mut buf = Al([S::fb(!a4[0].tb()); 12]);
                        let off = k % 4;
                        buf.0[off..off + N].copy_from_slice(&an);
                        // every other case: an exactly sized heap allocation instead (under AddressSanitizer a read of a whole
                        // register from a three-element slice is then an error rather than a read of a neighbour)
                        if (k / 4) % 2 == 1 {
                            let exact: Box<[S]> = an.to_vec().into_boxed_slice();
                            return (V::from_slice(std::hint::black_box(&exact[..])), model);
                        }
                        // black_box: the load has to be a real one from an address the optimiser knows nothing about
                        return (V::from_slice(std::hint::black_box(&buf.0[off..off + N + (k / 4).min(3)])), model);
                    }
                    "free-fn" => return (glam::$free($(an[$i]),+), model),
                    "const" => {
                        let t = consts();
                        let c = &t[k.min(t.len() - 1)];
                        return (c.1, c.2);
                    }
                    "Default" => return (V::default(), default_model()),
                    _ => {}
                }
                if_vec! {$kind,
                    match name {
                        "new" => return (V::new($(an[$i]),+), model),
                        "From<array>" => return (V::from(an), model),
                        "From<tuple>" => {
                            let t: Tup = ($(an[$i]),+);
                            return (V::from(t), model);
                        }
                        "AsMut-assign" => {
                            let mut v = cur;
                            *AsMut::<[S; N]>::as_mut(&mut v) = an;
                            return (v, model);
                        }
                        "splat" => return (V::splat(an[0]), [an[0].tb(); N]),
                        _ => {}
                    }
                }
                if_vec3a! {$kind,
                    if name == "from_vec4" {
                        // the 4th value word becomes the hidden lane
                        return (glam::Vec3A::from_vec4(glam::Vec4::new(a4[0], a4[1], a4[2], a4[3])), model);
                    }
                }
                if_quat! {$kind,
                    match name {
                        "from_xyzw" => return (V::from_xyzw($(an[$i]),+), model),
                        "from_vec4" => return (V::from_vec4(glam::$V4::new($(an[$i]),+)), model),
                        _ => {}
                    }
                }
                unreachable!("constructor path {name}")
            }

            fn write(name: &str, v: &mut V, k: usize, val: S) {
                if name == "field" {
                    match k {
                        $($i => v.$f = val,)+
                        _ => unreachable!(),
                    }
                    return;
                }
                if_vec! {$kind,
                    match name {
                        "IndexMut" => { v[k] = val; return; }
                        "AsMut" => { AsMut::<[S; N]>::as_mut(v)[k] = val; return; }
                        "with_" => {
                            *v = match k {
                                $($i => v.$wf(val),)+
                                _ => unreachable!(),
                            };
                            return;
                        }
                        _ => {}
                    }
                }
                unreachable!("write path {name}")
            }

            fn read(name: &str, v: &V) -> Result<[S; N], String> {
                match name {
                    "fields" => return Ok([$(v.$f),+]),
                    "to_array" => return Ok(v.to_array()),
                    "write_to_slice" => {
                        let sentinel = S::fb(0x5a5a_5a5a_5a5a_5a5a);
                        let mut buf = [sentinel; N + 1];
                        v.write_to_slice(&mut buf[..N]);
                        if buf[N].tb() != sentinel.tb() {
                            return Err(format!("write_to_slice wrote past the {N}-element slice"));
                        }
                        let mut a = [S::default(); N];
                        a.copy_from_slice(&buf[..N]);
                        // ... and into an exactly sized heap allocation (sanitizer builds see a store or a read-modify-write
                        // that reaches past the N elements)
                        {
                            let mut exact: Box<[S]> = vec![sentinel; N].into_boxed_slice();
                            v.write_to_slice(std::hint::black_box(&mut exact[..]));
                            for i in 0..N {
                                if exact[i].tb() != a[i].tb() {
                                    return Err(format!("write_to_slice into an exactly sized heap slice gives {:?} in element {i}, {:?} into a stack slice", exact[i], a[i]));
                                }
                            }
                        }
                        // the same read into the head of a longer destination: the first N elements, the rest untouched
                        let mut long = [sentinel; N + 3];
                        let r = vcore::catch(move || {
                            v.write_to_slice(&mut long);
                            long
                        });
                        match r {
                            Err(m) => return Err(format!("write_to_slice into a slice of {} elements panicked: {m}", N + 3)),
                            Ok(long) => {
                                for i in 0..N + 3 {
                                    let want = if i < N { a[i].tb() } else { sentinel.tb() };
                                    if long[i].tb() != want {
                                        return Err(format!("write_to_slice into a longer slice: element {i} holds 0x{:x}, expected 0x{:x}", long[i].tb(), want));
                                    }
                                }
                            }
                        }
                        return Ok(a);
                    }
                    "Into<array>" => {
                        let a: [S; N] = (*v).into();
                        return Ok(a);
                    }
                    "Into<tuple>" => {
                        let t: Tup = (*v).into();
                        return Ok([$(t.$i),+]);
                    }
                    "AsRef" => return Ok(*AsRef::<[S; N]>::as_ref(v)),
                    _ => {}
                }
                if_vec! {$kind,
                    if name == "Index" {
                        return Ok([$(v[$i]),+]);
                    }
                }
                if_quat! {$kind,
                    if name == "Into<Vec4>" {
                        return Ok(glam::$V4::from(*v).to_array());
                    }
                }
                unreachable!("read path {name}")
            }

            fn show(m: &[u64]) -> String {
                let v: Vec<String> = m.iter().map(|&x| format!("{:?}(0x{:x})", S::fb(x), x)).collect();
                format!("[{}]", v.join(", "))
            }

            /// every read path against the model: bit-for-bit, text paths parsed back and compared as values
            fn check_reads(v: &V, model: &[u64; N], with_precision: bool) -> Result<(), (&'static str, String)> {
                for &p in read_paths() {
                    match read(p, v) {
                        Err(e) => return Err((p, e)),
                        Ok(a) => {
                            for i in 0..N {
                                if a[i].tb() != model[i] {
                                    return Err((p, format!("lane {i} read through {p} is {:?}(0x{:x}), model has {:?}(0x{:x}); {p} = {}, model = {}", a[i], a[i].tb(), S::fb(model[i]), model[i], show(&bits_of(a)), show(model))));
                                }
                            }
                        }
                    }
                }
                for (p, s) in [("Debug", format!("{:?}", v)), ("Display", format!("{}", v))] {
                    match parse_lanes::<S>(&s) {
                        Some(a) if a.len() == N => {
                            for i in 0..N {
                                if !S::ieq(a[i], S::fb(model[i])) {
                                    return Err((p, format!("lane {i} printed by {p} is {:?}, model has {:?}(0x{:x}); text = {s:?}, model = {}", a[i], S::fb(model[i]), model[i], show(model))));
                                }
                            }
                        }
                        _ => return Err((p, format!("{p} text {s:?} does not contain {N} parsable numbers; model = {}", show(model)))),
                    }
                }
                if with_precision {
                    let s = format!("{:.2}", v);
                    let toks = text_tokens(&s);
                    let ok = match &toks {
                        Some(t) if t.len() == N => (0..N).all(|i| t[i] == format!("{:.2}", S::fb(model[i]))),
                        _ => false,
                    };
                    if !ok {
                        let e: Vec<String> = (0..N).map(|i| format!("{:.2}", S::fb(model[i]))).collect();
                        return Err(("Display.2", format!("{{:.2}} text {s:?}, expected the lanes {e:?} in order; model = {}", show(model))));
                    }
                }
                Ok(())
            }

            struct Op {
                code: u64,
                path: usize,
                k: usize,
                vals: [S; 4],
                vw: [u64; 4],
            }
            fn decode(r: &[u64]) -> Op {
                let mut vals = [S::default(); 4];
                let mut vw = [0u64; 4];
                for i in 0..4 {
                    vals[i] = S::fb(r[3 + i]);
                    vw[i] = vals[i].tb();
                }
                Op { code: r[0].min(2), path: r[1] as usize, k: r[2] as usize, vals, vw }
            }
            fn describe(op: &Op) -> String {
                let (cp, nlp) = cons_paths();
                match op.code {
                    0 => {
                        let name = cp[op.path.min(cp.len() - 1)];
                        match name {
                            "const" => {
                                let t = consts();
                                format!("construct {}::{}", TY, t[op.k.min(t.len() - 1)].0)
                            }
                            "Default" => "construct Default".to_string(),
                            "from_slice" => format!("construct from_slice(len {}) {}", N + op.k.min(3), show(&op.vw[..N])),
                            "from_vec4" => format!("construct from_vec4 {}", show(&op.vw)),
                            "splat" => format!("construct splat {}", show(&op.vw[..1])),
                            _ => format!("construct {name} {}", show(&op.vw[..N])),
                        }
                    }
                    1 => {
                        let wp = write_paths();
                        format!("write lane {} via {} = {}", op.k.min(N - 1), wp[op.path.min(wp.len() - 1)], show(&op.vw[..1]))
                    }
                    _ => {
                        let rp = read_paths();
                        format!("read via {} and rebuild via {}", rp[op.k.min(rp.len() - 1)], cp[op.path.min(nlp - 1)])
                    }
                }
            }

            /// words: REC words per op. Interprets the history against the [bits; N] model, comparing every read path after every step.
            pub fn check(w: &[u64], t: &mut Tally) -> Result<(), Fail> {
                let nops = w.len() / REC;
                t.eval(1);
                t.class(match nops {
                    0 => "len:0",
                    1..=8 => "len:1-8",
                    9..=16 => "len:9-16",
                    _ => "len:17-32",
                });
                t.class_n("steps", nops as u64);
                let (cp, nlp) = cons_paths();
                let wp = write_paths();
                let rp = read_paths();
                let mut v = V::default();
                let mut model = default_model();
                let mut wpaths_used = 0u32;
                let mut lanes_written = 0u32;
                let mut muts_used = 0u64;
                let mut nwrites = 0;
                let fail_at = |step: usize, p: &str, msg: String| -> Fail {
                    let mut hist: Vec<String> = vec!["Default".into()];
                    for j in 0..step {
                        hist.push(describe(&decode(&w[j * REC..(j + 1) * REC])));
                    }
                    let last = hist.last().unwrap().clone();
                    Fail::new(format!("C17/{}/{}/{}", VARIANT, TY, p), last, format!("after step {step} of {nops}: {msg}; history: {}", hist.join(" | ")))
                };
                if let Err((p, msg)) = check_reads(&v, &model, nops == 0) {
                    return Err(fail_at(0, p, msg));
                }
                for j in 0..nops {
                    let op = decode(&w[j * REC..(j + 1) * REC]);
                    match op.code {
                        0 => {
                            let pi = op.path.min(cp.len() - 1);
                            let name = cp[pi];
                            t.class(&format!("construct:{name}"));
                            muts_used |= 1 << pi;
                            let (nv, nm) = construct(name, op.vals, op.k, v);
                            v = nv;
                            model = nm;
                        }
                        1 => {
                            let pi = op.path.min(wp.len() - 1);
                            let name = wp[pi];
                            let k = op.k.min(N - 1);
                            t.class(&format!("write:{name}"));
                            if FLOAT {
                                t.class(&format!("written:{}", lattice::class(BITS, op.vw[0])));
                            }
                            wpaths_used |= 1 << pi;
                            lanes_written |= 1 << k;
                            muts_used |= 1 << (32 + pi);
                            nwrites += 1;
                            write(name, &mut v, k, op.vals[0]);
                            model[k] = op.vw[0];
                        }
                        _ => {
                            let rname = rp[op.k.min(rp.len() - 1)];
                            let cname = cp[op.path.min(nlp - 1)];
                            t.class(&format!("rebuild:{rname}"));
                            let a = match read(rname, &v) {
                                Ok(a) => a,
                                Err(e) => return Err(fail_at(j + 1, rname, e)),
                            };
                            let mut a4 = op.vals;
                            a4[..N].copy_from_slice(&a);
                            // the model is NOT updated: a wrong read or rebuild shows up against it
                            v = construct(cname, a4, op.k, v).0;
                        }
                    }
                    // Display with a precision (slow for extreme magnitudes) is compared on the final state only
                    if let Err((p, msg)) = check_reads(&v, &model, j + 1 == nops) {
                        return Err(fail_at(j + 1, p, msg));
                    }
                }
                // non-trivial: >= 2 lane writes through different write paths (Quat/DQuat have one write path: >= 2 different lanes
                // and >= 2 different mutation paths overall); all read paths are compared after every step
                let nt = if wp.len() > 1 { wpaths_used.count_ones() >= 2 } else { nwrites >= 2 && lanes_written.count_ones() >= 2 && muts_used.count_ones() >= 2 };
                if nt {
                    t.nontrivial(mix(hash_str(TY), mix(hash_str(VARIANT), fnv(w))));
                    if t.want_sample() {
                        let hist: Vec<String> = (0..nops).map(|j| describe(&decode(&w[j * REC..(j + 1) * REC]))).collect();
                        t.sample(json!({"type": TY, "variant": VARIANT, "history": hist, "final_model": show(&model)}));
                    }
                }
                Ok(())
            }

            /// words: [index into the constant table]. The constant read through every path equals its documented lanes.
            pub fn check_const(w: &[u64], t: &mut Tally) -> Result<(), Fail> {
                let tab = consts();
                let c = &tab[(w[0] as usize).min(tab.len() - 1)];
                t.eval(1);
                t.class(&format!("const:{}", c.0));
                if let Err((p, msg)) = check_reads(&c.1, &c.2, true) {
                    return Err(Fail::new(format!("C17/{}/{}/const-{}", VARIANT, TY, c.0), format!("{}::{} via {}", TY, c.0, p), format!("{}::{}: {msg}", TY, c.0)));
                }
                Ok(())
            }

            pub fn strat() -> BoxedStrategy<Vec<u64>> {
                let (cp, nlp) = cons_paths();
                let ncons = cp.len() as u64;
                let nlp = nlp as u64;
                let nw = write_paths().len() as u64;
                let nr = read_paths().len() as u64;
                let nk = (consts().len() as u64).max(4);
                // only the value words an op uses are generated (the rest are 0): N lanes for a construction, one for a write,
                // one (the hidden lane of Vec3A::from_vec4) for a rebuild
                let l = || lane_strat(BITS, FLOAT, SIGNED);
                let nv = if TY == "Vec3A" { 4 } else { N };
                let op = prop_oneof![
                    3 => (0..ncons, 0..nk, proptest::collection::vec(l(), nv)).prop_map(|(p, k, mut v)| {
                        v.resize(4, 0);
                        vec![0, p, k, v[0], v[1], v[2], v[3]]
                    }),
                    8 => (0..nw, 0..N as u64, l()).prop_map(|(p, k, v)| vec![1, p, k, v, 0, 0, 0]),
                    3 => (0..nlp, 0..nr, l()).prop_map(|(p, k, v)| vec![2, p, k, 0, 0, 0, v]),
                ];
                proptest::collection::vec(op, 0..=32).prop_map(|ops| ops.concat()).boxed()
            }

            pub fn subs<'a>(out: &mut Vec<SubCheck<'a>>) {
                out.push(SubCheck::new(
                    format!("history/{}/{}", TY, VARIANT),
                    2,
                    |env: &mut Env| {
                        env.tally.exhaustive = false;
                        let n = env.cases(20_000, 30);
                        env.prop("history", n, strat(), &check);
                    },
                    check,
                ));
                if_vec!($kind,
                    // an index outside 0..N must panic on the Index and IndexMut paths: they see exactly the N lanes
                    // every other path sees (for the SIMD-backed Vec3A the register has a fourth lane)
                    let idx_check = |w: &[u64], t: &mut Tally| -> Result<(), Fail> {
                        let idx = w[0] as usize;
                        let mut a = [<S as Lane>::fb(0); N];
                        for i in 0..N { a[i] = <S as Lane>::fb(w[1 + i]); }
                        let v = V::from_array(a);
                        t.eval(1);
                        let r = vcore::catch(|| v[idx]);
                        let mut m = v;
                        let nv = <S as Lane>::fb(w[1 + N]);
                        let r2 = vcore::catch(move || { m[idx] = nv; m.to_array() });
                        let sig = format!("C17/{}/{}/index-range", VARIANT, TY);
                        if idx < N {
                            match (r, r2) {
                                (Ok(x), Ok(after)) => {
                                    if x.tb() != a[idx].tb() { return Err(Fail::new(sig, "Index", format!("v[{idx}] = {:?}, lanes {:?}", x, a))); }
                                    for i in 0..N { let e = if i == idx { nv } else { a[i] }; if after[i].tb() != e.tb() { return Err(Fail::new(sig, "IndexMut", format!("after v[{idx}] = {:?}: {:?}, before {:?}", nv, after, a))); } }
                                }
                                _ => return Err(Fail::new(sig, "Index/IndexMut", format!("valid index {idx} panicked"))),
                            }
                        } else if r.is_ok() || r2.is_ok() {
                            return Err(Fail::new(sig, "Index/IndexMut", format!("index {idx} is outside the {N} lanes but did not panic (Index returned {:?}, IndexMut ok: {})", r.ok(), r2.is_ok())));
                        }
                        Ok(())
                    };
                    out.push(SubCheck::new(
                        format!("index-range/{}/{}", TY, VARIANT),
                        1,
                        move |env: &mut Env| {
                            let mut n = 0;
                            for idx in (0..N as u64 + 3).chain([4u64, 7, 8, 16, 1 << 32, u64::MAX - 1, u64::MAX]) {
                                for k in 0..4u64 {
                                    let mut w = vec![idx];
                                    for i in 0..N as u64 + 1 { w.push(mix(k, i) >> (64 - BITS.min(63))); }
                                    n += 1;
                                    if !env.direct(&w, &idx_check) { return; }
                                }
                            }
                            env.tally.nontrivial_enum(n);
                            env.tally.exhaustive = true;
                        },
                        idx_check,
                    ));
                );
                out.push(SubCheck::new(
                    format!("consts/{}/{}", TY, VARIANT),
                    1,
                    |env: &mut Env| {
                        let n = consts().len() as u64;
                        for i in 0..n {
                            if !env.direct(&[i], &check_const) {
                                return;
                            }
                            env.tally.nontrivial_enum(1);
                        }
                        env.tally.exhaustive = true;
                    },
                    check_const,
                ));
            }
        }
    };
}

macro_rules! acc2 {
    ($m:ident, $T:ident, $S:ident, $free:ident, $cls:tt) => {
        acc_type!($m, $T, $S, 2, [x y], [0 1], [with_x with_y], [X Y], [NEG_X NEG_Y], $free, vec, $cls, $T);
    };
}
macro_rules! acc3 {
    ($m:ident, $T:ident, $S:ident, $free:ident, $kind:tt, $cls:tt) => {
        acc_type!($m, $T, $S, 3, [x y z], [0 1 2], [with_x with_y with_z], [X Y Z], [NEG_X NEG_Y NEG_Z], $free, $kind, $cls, $T);
    };
}
macro_rules! acc4 {
    ($m:ident, $T:ident, $S:ident, $free:ident, $kind:tt, $cls:tt, $V4:ident) => {
        acc_type!($m, $T, $S, 4, [x y z w], [0 1 2 3], [with_x with_y with_z with_w], [X Y Z W], [NEG_X NEG_Y NEG_Z NEG_W], $free, $kind, $cls, $V4);
    };
}
macro_rules! family {
    ($m2:ident, $m3:ident, $m4:ident, $T2:ident, $T3:ident, $T4:ident, $S:ident, $f2:ident, $f3:ident, $f4:ident, $cls:tt) => {
        acc2!($m2, $T2, $S, $f2, $cls);
        acc3!($m3, $T3, $S, $f3, vec, $cls);
        acc4!($m4, $T4, $S, $f4, vec, $cls, $T4);
    };
}

family!(t_vec2, t_vec3, t_vec4, Vec2, Vec3, Vec4, f32, vec2, vec3, vec4, float);
acc3!(t_vec3a, Vec3A, f32, vec3a, vec3a, float);
family!(t_dvec2, t_dvec3, t_dvec4, DVec2, DVec3, DVec4, f64, dvec2, dvec3, dvec4, float);
family!(t_i8vec2, t_i8vec3, t_i8vec4, I8Vec2, I8Vec3, I8Vec4, i8, i8vec2, i8vec3, i8vec4, sint);
family!(t_u8vec2, t_u8vec3, t_u8vec4, U8Vec2, U8Vec3, U8Vec4, u8, u8vec2, u8vec3, u8vec4, uint);
family!(t_i16vec2, t_i16vec3, t_i16vec4, I16Vec2, I16Vec3, I16Vec4, i16, i16vec2, i16vec3, i16vec4, sint);
family!(t_u16vec2, t_u16vec3, t_u16vec4, U16Vec2, U16Vec3, U16Vec4, u16, u16vec2, u16vec3, u16vec4, uint);
family!(t_ivec2, t_ivec3, t_ivec4, IVec2, IVec3, IVec4, i32, ivec2, ivec3, ivec4, sint);
family!(t_uvec2, t_uvec3, t_uvec4, UVec2, UVec3, UVec4, u32, uvec2, uvec3, uvec4, uint);
family!(t_i64vec2, t_i64vec3, t_i64vec4, I64Vec2, I64Vec3, I64Vec4, i64, i64vec2, i64vec3, i64vec4, sint);
family!(t_u64vec2, t_u64vec3, t_u64vec4, U64Vec2, U64Vec3, U64Vec4, u64, u64vec2, u64vec3, u64vec4, uint);
family!(t_usizevec2, t_usizevec3, t_usizevec4, USizeVec2, USizeVec3, USizeVec4, usize, usizevec2, usizevec3, usizevec4, uint);
acc4!(t_quat, Quat, f32, quat, quat, float, Vec4);
acc4!(t_dquat, DQuat, f64, dquat, quat, float, DVec4);

/// `From<(vector, scalar ...)>` constructors: every lane of every part lands in its place bit for bit
macro_rules! compound {
    ($m:ident, $T2:ident, $T3:ident, $T4:ident, $S:ident, |$a:ident, $h:ident, $o:ident| $extra:block) => {
        pub mod $m {
            use super::*;
            use glam::{$T2, $T3, $T4};
            type S = $S;
            pub const TY: &str = stringify!($T4);
            /// words: a b c d, hidden-lane word
            pub fn check(w: &[u64], t: &mut Tally) -> Result<(), Fail> {
                let $a: [S; 4] = [<S as Lane>::fb(w[0]), <S as Lane>::fb(w[1]), <S as Lane>::fb(w[2]), <S as Lane>::fb(w[3])];
                #[allow(unused_variables)]
                let $h = w[4];
                t.eval(1);
                let distinct = { let mut b: Vec<u64> = $a.iter().map(|x| x.tb()).collect(); b.sort_unstable(); b.dedup(); b.len() == 4 };
                t.class(if distinct { "lanes:pairwise-distinct" } else { "lanes:with-repeats" });
                if distinct {
                    t.nontrivial(mix(hash_str(TY), mix(hash_str(VARIANT), vcore::fnv(w))));
                    if t.want_sample() {
                        t.sample(json!({"family": TY, "variant": VARIANT, "lanes": format!("{:?}", $a), "lane_bits": $a.iter().map(|x| format!("{:#x}", x.tb())).collect::<Vec<_>>()}));
                    }
                }
                let a = $a;
                #[allow(unused_mut)]
                let mut $o: Vec<(&'static str, Vec<S>, Vec<S>)> = vec![
                    (concat!(stringify!($T4), "::from((", stringify!($T3), ", s))"), $T4::from(($T3::new(a[0], a[1], a[2]), a[3])).to_array().to_vec(), a.to_vec()),
                    (concat!(stringify!($T4), "::from((s, ", stringify!($T3), "))"), $T4::from((a[0], $T3::new(a[1], a[2], a[3]))).to_array().to_vec(), a.to_vec()),
                    (concat!(stringify!($T4), "::from((", stringify!($T2), ", s, s))"), $T4::from(($T2::new(a[0], a[1]), a[2], a[3])).to_array().to_vec(), a.to_vec()),
                    (concat!(stringify!($T4), "::from((", stringify!($T2), ", ", stringify!($T2), "))"), $T4::from(($T2::new(a[0], a[1]), $T2::new(a[2], a[3]))).to_array().to_vec(), a.to_vec()),
                    (concat!(stringify!($T3), "::from((", stringify!($T2), ", s))"), $T3::from(($T2::new(a[0], a[1]), a[2])).to_array().to_vec(), a[..3].to_vec()),
                ];
                $extra
                for (form, got, exp) in $o {
                    for i in 0..exp.len() {
                        if got[i].tb() != exp[i].tb() {
                            return Err(Fail::new(
                                format!("C17/{}/{}/compound-tuples", VARIANT, TY),
                                form,
                                format!("{form}: lane {i} is {:?} (bits {:#x}) but the part put there is {:?} (bits {:#x}); parts {:?}", got[i], got[i].tb(), exp[i], exp[i].tb(), a),
                            ));
                        }
                    }
                }
                Ok(())
            }
            pub fn subs<'a>(out: &mut Vec<SubCheck<'a>>) {
                out.push(SubCheck::new(
                    format!("compound-tuples/{}/{}", TY, VARIANT),
                    1,
                    |env: &mut Env| {
                        env.tally.exhaustive = false;
                        let n = env.cases(20_000, 30);
                        let l = || lane_strat(<S as Lane>::BITS, <S as Lane>::FLOAT, <S as Lane>::SIGNED);
                        let st = (proptest::collection::vec(l(), 4), lattice::lat(32)).prop_map(|(mut v, h)| { v.push(h); v }).boxed();
                        env.prop("compound-tuples", n, st, &check);
                    },
                    check,
                ));
            }
        }
    };
}
compound!(c_vec, Vec2, Vec3, Vec4, f32, |a, h, o| {
    use glam::Vec3A;
    let hid = f32::from_bits(h as u32);
    let j = |x: f32, y: f32, z: f32| Vec3A::from_vec4(Vec4::new(x, y, z, hid));
    o.push(("Vec4::from((Vec3A, s))", Vec4::from((j(a[0], a[1], a[2]), a[3])).to_array().to_vec(), a.to_vec()));
    o.push(("Vec4::from((s, Vec3A))", Vec4::from((a[0], j(a[1], a[2], a[3]))).to_array().to_vec(), a.to_vec()));
    o.push(("Vec3A::from((Vec2, s))", Vec3A::from((Vec2::new(a[0], a[1]), a[2])).to_array().to_vec(), a[..3].to_vec()));
    o.push(("Vec3A::extend", j(a[0], a[1], a[2]).extend(a[3]).to_array().to_vec(), a.to_vec()));
});
compound!(c_dvec, DVec2, DVec3, DVec4, f64, |a, h, o| {});
compound!(c_i8vec, I8Vec2, I8Vec3, I8Vec4, i8, |a, h, o| {});
compound!(c_u8vec, U8Vec2, U8Vec3, U8Vec4, u8, |a, h, o| {});
compound!(c_i16vec, I16Vec2, I16Vec3, I16Vec4, i16, |a, h, o| {});
compound!(c_u16vec, U16Vec2, U16Vec3, U16Vec4, u16, |a, h, o| {});
compound!(c_ivec, IVec2, IVec3, IVec4, i32, |a, h, o| {});
compound!(c_uvec, UVec2, UVec3, UVec4, u32, |a, h, o| {});
compound!(c_i64vec, I64Vec2, I64Vec3, I64Vec4, i64, |a, h, o| {});
compound!(c_u64vec, U64Vec2, U64Vec3, U64Vec4, u64, |a, h, o| {});
compound!(c_usizevec, USizeVec2, USizeVec3, USizeVec4, usize, |a, h, o| {});

/// (type name, history check) of every type: the entry points of the libFuzzer target engine/fuzz/fuzz_targets/c17_history.rs
#[allow(dead_code)]
pub fn history_checks() -> Vec<(&'static str, fn(&[u64], &mut Tally) -> Result<(), Fail>)> {
    let mut out: Vec<(&'static str, fn(&[u64], &mut Tally) -> Result<(), Fail>)> = vec![];
    macro_rules! reg {
        ($($m:ident)+) => { $( out.push(($m::TY, $m::check)); )+ };
    }
    reg!(t_vec2 t_vec3 t_vec3a t_vec4 t_dvec2 t_dvec3 t_dvec4);
    reg!(t_i8vec2 t_i8vec3 t_i8vec4 t_u8vec2 t_u8vec3 t_u8vec4 t_i16vec2 t_i16vec3 t_i16vec4 t_u16vec2 t_u16vec3 t_u16vec4);
    reg!(t_ivec2 t_ivec3 t_ivec4 t_uvec2 t_uvec3 t_uvec4 t_i64vec2 t_i64vec3 t_i64vec4 t_u64vec2 t_u64vec3 t_u64vec4);
    reg!(t_usizevec2 t_usizevec3 t_usizevec4 t_quat t_dquat);
    out
}

pub fn subs<'a>(_args: &Args) -> Vec<SubCheck<'a>> {
    let mut out: Vec<SubCheck<'a>> = vec![];
    macro_rules! reg {
        ($($m:ident)+) => { $( $m::subs(&mut out); )+ };
    }
    reg!(t_vec2 t_vec3 t_vec3a t_vec4 t_dvec2 t_dvec3 t_dvec4);
    reg!(t_i8vec2 t_i8vec3 t_i8vec4 t_u8vec2 t_u8vec3 t_u8vec4 t_i16vec2 t_i16vec3 t_i16vec4 t_u16vec2 t_u16vec3 t_u16vec4);
    reg!(t_ivec2 t_ivec3 t_ivec4 t_uvec2 t_uvec3 t_uvec4 t_i64vec2 t_i64vec3 t_i64vec4 t_u64vec2 t_u64vec3 t_u64vec4);
    reg!(t_usizevec2 t_usizevec3 t_usizevec4 t_quat t_dquat);
    reg!(c_vec c_dvec c_i8vec c_u8vec c_i16vec c_u16vec c_ivec c_uvec c_i64vec c_u64vec c_usizevec);
    out
}
