//! C03 — matrix algebra (product, transpose, determinant, inverse, +, -, scaling) is the true one.
//!
//! Everything in this file is independent of glam: the number tower of the reference
//! (i128 exact integers, f64 for the f32 types, double-double for the f64 types), the reference
//! matrix `RM` (Laplace expansion, adjugate, products, all also on absolute values to get the
//! `S = sum |monomials|` of the tolerance calculus) and the proptest generators.
use vcore::num::DD;
use vcore::*;

pub mod refm {
    use super::DD;

    /// A number type the reference can compute in.
    pub trait Num: Copy + std::fmt::Debug + PartialEq {
        fn zero() -> Self;
        fn one() -> Self;
        fn nadd(self, o: Self) -> Self;
        fn nsub(self, o: Self) -> Self;
        fn nmul(self, o: Self) -> Self;
        fn nneg(self) -> Self;
        fn nabs(self) -> Self;
        fn f(self) -> f64;
        fn of(x: f64) -> Self;
        fn is_zero(self) -> bool;
    }
    impl Num for f64 {
        fn zero() -> f64 { 0.0 }
        fn one() -> f64 { 1.0 }
        fn nadd(self, o: f64) -> f64 { self + o }
        fn nsub(self, o: f64) -> f64 { self - o }
        fn nmul(self, o: f64) -> f64 { self * o }
        fn nneg(self) -> f64 { -self }
        fn nabs(self) -> f64 { self.abs() }
        fn f(self) -> f64 { self }
        fn of(x: f64) -> f64 { x }
        fn is_zero(self) -> bool { self == 0.0 }
    }
    impl Num for DD {
        fn zero() -> DD { DD::ZERO }
        fn one() -> DD { DD::ONE }
        fn nadd(self, o: DD) -> DD { self.add(o) }
        fn nsub(self, o: DD) -> DD { self.sub(o) }
        fn nmul(self, o: DD) -> DD { self.mul(o) }
        fn nneg(self) -> DD { self.neg() }
        fn nabs(self) -> DD { self.abs() }
        fn f(self) -> f64 { self.hi + self.lo }
        fn of(x: f64) -> DD { DD::new(x) }
        fn is_zero(self) -> bool { self.hi == 0.0 && self.lo == 0.0 }
    }
    impl Num for i128 {
        fn zero() -> i128 { 0 }
        fn one() -> i128 { 1 }
        fn nadd(self, o: i128) -> i128 { self + o }
        fn nsub(self, o: i128) -> i128 { self - o }
        fn nmul(self, o: i128) -> i128 { self * o }
        fn nneg(self) -> i128 { -self }
        fn nabs(self) -> i128 { self.abs() }
        fn f(self) -> f64 { self as f64 }
        fn of(x: f64) -> i128 { x as i128 }
        fn is_zero(self) -> bool { self == 0 }
    }

    /// Reference matrix, `e[c][r]` (column, row), n <= 4.
    #[derive(Clone, Copy, Debug)]
    pub struct RM<X: Num> {
        pub n: usize,
        pub e: [[X; 4]; 4],
    }
    impl<X: Num> RM<X> {
        pub fn zero(n: usize) -> Self {
            RM { n, e: [[X::zero(); 4]; 4] }
        }
        /// from a column-major list a[c*n + r]
        pub fn from_cols(n: usize, a: &[X]) -> Self {
            let mut m = Self::zero(n);
            for c in 0..n {
                for r in 0..n {
                    m.e[c][r] = a[c * n + r];
                }
            }
            m
        }
        #[inline]
        pub fn at(&self, r: usize, c: usize) -> X {
            self.e[c][r]
        }
        pub fn abs(&self) -> Self {
            let mut m = *self;
            for c in 0..self.n {
                for r in 0..self.n {
                    m.e[c][r] = self.e[c][r].nabs();
                }
            }
            m
        }
        pub fn transpose(&self) -> Self {
            let mut m = Self::zero(self.n);
            for c in 0..self.n {
                for r in 0..self.n {
                    m.e[c][r] = self.e[r][c];
                }
            }
            m
        }
        /// (self * o)(r, c) = sum_k self(r, k) * o(k, c)
        pub fn mul(&self, o: &Self) -> Self {
            let n = self.n;
            let mut m = Self::zero(n);
            for c in 0..n {
                for r in 0..n {
                    let mut s = X::zero();
                    for k in 0..n {
                        s = s.nadd(self.at(r, k).nmul(o.at(k, c)));
                    }
                    m.e[c][r] = s;
                }
            }
            m
        }
        /// (self * v)(r) = sum_c self(r, c) * v(c)
        pub fn mulv(&self, v: &[X]) -> [X; 4] {
            let n = self.n;
            let mut out = [X::zero(); 4];
            for r in 0..n {
                let mut s = X::zero();
                for c in 0..n {
                    s = s.nadd(self.at(r, c).nmul(v[c]));
                }
                out[r] = s;
            }
            out
        }
        /// the matrix without row `dr` and column `dc`
        pub fn minor(&self, dr: usize, dc: usize) -> Self {
            let n = self.n;
            let mut m = Self::zero(n - 1);
            let mut cc = 0;
            for c in 0..n {
                if c == dc {
                    continue;
                }
                let mut rr = 0;
                for r in 0..n {
                    if r == dr {
                        continue;
                    }
                    m.e[cc][rr] = self.e[c][r];
                    rr += 1;
                }
                cc += 1;
            }
            m
        }
        /// Laplace expansion along row 0. `signed == false` drops the alternating signs: on a matrix
        /// of absolute values this is the sum of the absolute values of all n! monomials.
        pub fn det_s(&self, signed: bool) -> X {
            let n = self.n;
            if n == 1 {
                return self.e[0][0];
            }
            if n == 2 {
                let a = self.e[0][0].nmul(self.e[1][1]);
                let b = self.e[1][0].nmul(self.e[0][1]);
                return if signed { a.nsub(b) } else { a.nadd(b) };
            }
            let mut s = X::zero();
            for c in 0..n {
                let t = self.at(0, c).nmul(self.minor(0, c).det_s(signed));
                s = if signed && c % 2 == 1 { s.nsub(t) } else { s.nadd(t) };
            }
            s
        }
        pub fn det(&self) -> X {
            self.det_s(true)
        }
        /// adjugate: adj(r, c) = (-1)^(r+c) det(self without row c and column r)
        pub fn adj_s(&self, signed: bool) -> Self {
            let n = self.n;
            let mut m = Self::zero(n);
            for c in 0..n {
                for r in 0..n {
                    let d = if n == 1 { X::one() } else { self.minor(c, r).det_s(signed) };
                    m.e[c][r] = if signed && (r + c) % 2 == 1 { d.nneg() } else { d };
                }
            }
            m
        }
        pub fn nonzero(&self) -> usize {
            let mut k = 0;
            for c in 0..self.n {
                for r in 0..self.n {
                    if !self.e[c][r].is_zero() {
                        k += 1;
                    }
                }
            }
            k
        }
        pub fn frob(&self) -> f64 {
            let mut s = 0.0;
            for c in 0..self.n {
                for r in 0..self.n {
                    let x = self.e[c][r].f();
                    s += x * x;
                }
            }
            s.sqrt()
        }
        pub fn list(&self) -> Vec<f64> {
            let mut v = vec![];
            for c in 0..self.n {
                for r in 0..self.n {
                    v.push(self.e[c][r].f());
                }
            }
            v
        }
    }
}

/// Scalar of a glam matrix type and its reference number type.
pub trait Fl: Copy + PartialOrd + std::fmt::Debug + Default + 'static {
    type R: refm::Num;
    const BITS: u32;
    const U: f64;
    const SIGN: u64;
    fn fb(w: u64) -> Self;
    fn tb(self) -> u64;
    fn r(self) -> Self::R;
    fn to64(self) -> f64;
    fn of64(x: f64) -> Self;
    fn ieq(a: Self, b: Self) -> bool;
    fn fadd(self, o: Self) -> Self;
    fn fsub(self, o: Self) -> Self;
    fn fmul(self, o: Self) -> Self;
    fn fdiv(self, o: Self) -> Self;
}
impl Fl for f32 {
    type R = f64;
    const BITS: u32 = 32;
    const U: f64 = vcore::num::U32;
    const SIGN: u64 = 0x8000_0000;
    #[inline] fn fb(w: u64) -> f32 { f32::from_bits(w as u32) }
    #[inline] fn tb(self) -> u64 { self.to_bits() as u64 }
    #[inline] fn r(self) -> f64 { self as f64 }
    #[inline] fn to64(self) -> f64 { self as f64 }
    #[inline] fn of64(x: f64) -> f32 { x as f32 }
    #[inline] fn ieq(a: f32, b: f32) -> bool { (a.is_nan() && b.is_nan()) || a == b }
    #[inline] fn fadd(self, o: f32) -> f32 { self + o }
    #[inline] fn fsub(self, o: f32) -> f32 { self - o }
    #[inline] fn fmul(self, o: f32) -> f32 { self * o }
    #[inline] fn fdiv(self, o: f32) -> f32 { self / o }
}
impl Fl for f64 {
    type R = DD;
    const BITS: u32 = 64;
    const U: f64 = vcore::num::U64;
    const SIGN: u64 = 0x8000_0000_0000_0000;
    #[inline] fn fb(w: u64) -> f64 { f64::from_bits(w) }
    #[inline] fn tb(self) -> u64 { self.to_bits() }
    #[inline] fn r(self) -> DD { DD::new(self) }
    #[inline] fn to64(self) -> f64 { self }
    #[inline] fn of64(x: f64) -> f64 { x }
    #[inline] fn ieq(a: f64, b: f64) -> bool { (a.is_nan() && b.is_nan()) || a == b }
    #[inline] fn fadd(self, o: f64) -> f64 { self + o }
    #[inline] fn fsub(self, o: f64) -> f64 { self - o }
    #[inline] fn fmul(self, o: f64) -> f64 { self * o }
    #[inline] fn fdiv(self, o: f64) -> f64 { self / o }
}

/// Generators (glam-independent). Matrices are lists a[c*n + r].
pub mod gen {
    use proptest::prelude::*;
    use proptest::strategy::BoxedStrategy;

    /// Largest |entry| for which every intermediate of the n×n determinant / adjugate / product stays an
    /// exactly representable integer: n!·e^n < 2^24 (f32) / 2^53 (f64).
    pub fn emax(n: usize, bits: u32) -> i64 {
        match (n, bits) {
            (2, 32) => 2048,
            (3, 32) => 128,
            (4, 32) => 24,
            (2, _) => 1 << 25,
            (3, _) => 1 << 16,
            (4, _) => 4096,
            _ => unreachable!(),
        }
    }

    fn perms(n: usize) -> Vec<Vec<usize>> {
        fn rec(cur: &mut Vec<usize>, used: &mut Vec<bool>, n: usize, out: &mut Vec<Vec<usize>>) {
            if cur.len() == n {
                out.push(cur.clone());
                return;
            }
            for i in 0..n {
                if !used[i] {
                    used[i] = true;
                    cur.push(i);
                    rec(cur, used, n, out);
                    cur.pop();
                    used[i] = false;
                }
            }
        }
        let mut out = vec![];
        rec(&mut vec![], &mut vec![false; n], n, &mut out);
        out
    }

    /// Integer-lattice matrix: dense (small, ±8, up to emax), dense with zeros, rank-deficient, signed permutation.
    pub fn lat_mat(n: usize, bits: u32) -> BoxedStrategy<Vec<i64>> {
        let em = emax(n, bits);
        let dense = |e: i64| proptest::collection::vec(-e..=e, n * n).boxed();
        // rank-deficient: base entries small enough that the combination stays within emax
        let eb = (em / (2 * (n as i64 - 1)).max(1)).max(1).min(8.max(em / 64));
        let rankdef = (proptest::collection::vec(-eb..=eb, n * n), 0usize..n, any::<bool>(), proptest::collection::vec(-2i64..=2, n), 0u8..4)
            .prop_map(move |(mut a, k, by_row, coef, mode)| {
                // line k := combination of the other lines (mode 0: zero line, 1: copy of a neighbour, else general)
                for i in 0..n {
                    let mut s = 0i64;
                    for j in 0..n {
                        if j == k {
                            continue;
                        }
                        let cj = match mode {
                            0 => 0,
                            1 => (j == (k + 1) % n) as i64,
                            _ => coef[j],
                        };
                        let x = if by_row { a[i * n + j] } else { a[j * n + i] };
                        s += cj * x;
                    }
                    if by_row {
                        a[i * n + k] = s; // row k of every column i
                    } else {
                        a[k * n + i] = s; // column k
                    }
                }
                a
            })
            .boxed();
        let pl = perms(n);
        let np = pl.len();
        let perm = (0usize..np, proptest::collection::vec(any::<bool>(), n), proptest::collection::vec(0u8..4, n))
            .prop_map(move |(p, sg, sc)| {
                let mut a = vec![0i64; n * n];
                for c in 0..n {
                    let v = [1i64, 1, 2, 3][sc[c] as usize] * if sg[c] { -1 } else { 1 };
                    a[c * n + pl[p][c]] = v;
                }
                a
            })
            .boxed();
        let holes = (proptest::collection::vec(-8i64..=8, n * n), proptest::collection::vec(0u8..4, n * n))
            .prop_map(|(a, z)| a.iter().zip(z.iter()).map(|(x, z)| if *z == 0 { 0 } else { *x }).collect::<Vec<i64>>())
            .boxed();
        prop_oneof![
            10 => dense(2),
            30 => dense(8.min(em)),
            20 => dense(em),
            20 => rankdef,
            10 => perm,
            10 => holes,
        ]
        .boxed()
    }

    fn ident(n: usize) -> Vec<f64> {
        let mut m = vec![0.0; n * n];
        for i in 0..n {
            m[i * n + i] = 1.0;
        }
        m
    }
    fn matmul(n: usize, a: &[f64], b: &[f64]) -> Vec<f64> {
        let mut m = vec![0.0; n * n];
        for c in 0..n {
            for r in 0..n {
                let mut s = 0.0;
                for k in 0..n {
                    s += a[k * n + r] * b[c * n + k];
                }
                m[c * n + r] = s;
            }
        }
        m
    }
    /// product of Givens rotations over all coordinate planes (dense orthogonal matrix)
    pub fn givens(n: usize, ang: &[f64]) -> Vec<f64> {
        let mut m = ident(n);
        let mut k = 0;
        for i in 0..n {
            for j in i + 1..n {
                let (s, c) = ang[k].sin_cos();
                k += 1;
                let mut g = ident(n);
                g[i * n + i] = c;
                g[j * n + j] = c;
                g[i * n + j] = s;
                g[j * n + i] = -s;
                m = matmul(n, &m, &g);
            }
        }
        m
    }
    fn round_to(bits: u32, x: f64) -> f64 {
        if bits == 32 {
            x as f32 as f64
        } else {
            x
        }
    }

    /// U·diag(σ)·Vᵀ with prescribed 2-norm condition number; profile 0: one small singular value,
    /// profile 1: geometric spectrum (κ limited so that the cofactor formula stays meaningful).
    fn kappa_mat(n: usize, bits: u32) -> BoxedStrategy<Vec<f64>> {
        let pi = std::f64::consts::PI;
        let lkmax: f64 = if bits == 32 { 4.0 } else { 10.0 };
        (
            proptest::collection::vec(-pi..pi, 6),
            proptest::collection::vec(-pi..pi, 6),
            0u8..3,
            0.0f64..1.0,
            proptest::collection::vec(0.5f64..1.0, 2),
        )
            .prop_map(move |(au, av, prof, lk, mids)| {
                let u = givens(n, &au);
                let v = givens(n, &av);
                let mut sig = vec![1.0; n];
                if prof < 2 {
                    let kappa = 10f64.powf(lk * lkmax);
                    for i in 1..n - 1 {
                        sig[i] = mids[i - 1];
                    }
                    sig[n - 1] = 1.0 / kappa;
                } else {
                    let kappa = 10f64.powf(lk * lkmax / 2.0);
                    for i in 0..n {
                        sig[i] = kappa.powf(-(i as f64) / (n as f64 - 1.0));
                    }
                }
                let mut d = vec![0.0; n * n];
                for i in 0..n {
                    d[i * n + i] = sig[i];
                }
                let mut vt = vec![0.0; n * n];
                for c in 0..n {
                    for r in 0..n {
                        vt[c * n + r] = v[r * n + c];
                    }
                }
                matmul(n, &matmul(n, &u, &d), &vt)
            })
            .boxed()
    }

    /// one scale/rotation/translation factor as an n×n matrix (n = 4: 3D TRS, n = 3: 2D TRS in homogeneous
    /// form or a 3D rotation·scale, n = 2: rotation·scale)
    fn trs_factor(n: usize, bits: u32) -> BoxedStrategy<Vec<f64>> {
        let pi = std::f64::consts::PI;
        let ls: f64 = if bits == 32 { 2.0 } else { 3.0 };
        (
            proptest::collection::vec(-pi..pi, 3),
            proptest::collection::vec(-ls..ls, 3),
            proptest::collection::vec(any::<bool>(), 3),
            proptest::collection::vec(-100.0f64..100.0, 3),
            any::<bool>(),
        )
            .prop_map(move |(ang, lsc, neg, tr, homog)| {
                let sc: Vec<f64> = (0..3).map(|i| 10f64.powf(lsc[i]) * if neg[i] { -1.0 } else { 1.0 }).collect();
                match n {
                    2 => {
                        let r = givens(2, &ang);
                        let mut m = r.clone();
                        for c in 0..2 {
                            for k in 0..2 {
                                m[c * 2 + k] *= sc[c];
                            }
                        }
                        m
                    }
                    3 if homog => {
                        let r = givens(2, &ang);
                        let mut m = ident(3);
                        for c in 0..2 {
                            for k in 0..2 {
                                m[c * 3 + k] = r[c * 2 + k] * sc[c];
                            }
                        }
                        m[6] = tr[0];
                        m[7] = tr[1];
                        m
                    }
                    3 => {
                        let mut m = givens(3, &ang);
                        for c in 0..3 {
                            for k in 0..3 {
                                m[c * 3 + k] *= sc[c];
                            }
                        }
                        m
                    }
                    _ => {
                        let r = givens(3, &ang);
                        let mut m = ident(4);
                        for c in 0..3 {
                            for k in 0..3 {
                                m[c * 4 + k] = r[c * 3 + k] * sc[c];
                            }
                        }
                        m[12] = tr[0];
                        m[13] = tr[1];
                        m[14] = tr[2];
                        m
                    }
                }
            })
            .boxed()
    }

    /// product of one to three TRS factors
    fn trs_mat(n: usize, bits: u32) -> BoxedStrategy<Vec<f64>> {
        (proptest::collection::vec(trs_factor(n, bits), 1..=3))
            .prop_map(move |fs| {
                let mut m = fs[0].clone();
                for f in &fs[1..] {
                    m = matmul(n, &m, f);
                }
                m
            })
            .boxed()
    }

    /// dense entries with independent log-uniform magnitudes 2^-6..2^6 and random signs, occasional zero
    fn dense_mat(n: usize) -> BoxedStrategy<Vec<f64>> {
        proptest::collection::vec((any::<bool>(), -6.0f64..6.0, 0u8..16), n * n)
            .prop_map(|v| v.iter().map(|(s, e, z)| if *z == 0 { 0.0 } else { 2f64.powf(*e) * if *s { -1.0 } else { 1.0 } }).collect::<Vec<f64>>())
            .boxed()
    }

    /// nearly orthogonal / nearly unimodular: U·diag(1 + δ)·Vᵀ with δ = 0 or ±10^-j (a rotation that has drifted, a
    /// rotation times a scale that is almost one, an f32 rotation widened to f64): determinant within a thin shell
    /// around ±1 without being ±1, where a shortcut keyed on "det is about one" would fire
    fn near_unit_mat(n: usize, bits: u32) -> BoxedStrategy<Vec<f64>> {
        let pi = std::f64::consts::PI;
        let jmax: f64 = if bits == 32 { 7.0 } else { 14.0 };
        (
            proptest::collection::vec(-pi..pi, 6),
            proptest::collection::vec(-pi..pi, 6),
            proptest::collection::vec((0u8..4, 2.0f64..jmax, any::<bool>()), n),
            any::<bool>(),
            any::<bool>(),
            any::<bool>(),
        )
            .prop_map(move |(au, av, ds, two_sided, via_f32, mirror)| {
                let u = givens(n, &au);
                let mut d = vec![0.0; n * n];
                for i in 0..n {
                    let (k, j, neg) = ds[i];
                    let delta = if k == 0 { 0.0 } else { 10f64.powf(-j) * if neg { -1.0 } else { 1.0 } };
                    d[i * n + i] = 1.0 + delta;
                }
                if mirror {
                    d[0] = -d[0];
                }
                let mut m = matmul(n, &u, &d);
                if two_sided {
                    let v = givens(n, &av);
                    let mut vt = vec![0.0; n * n];
                    for c in 0..n {
                        for r in 0..n {
                            vt[c * n + r] = v[r * n + c];
                        }
                    }
                    m = matmul(n, &m, &vt);
                }
                if via_f32 {
                    m.iter_mut().for_each(|x| *x = *x as f32 as f64);
                }
                m
            })
            .boxed()
    }

    /// a rotation times a uniform scale chosen so that the determinant sits near the top or the bottom of the normal
    /// range (|det| in 2^(emax-28) .. 2^emax, or its reciprocal): every cofactor, the determinant and every entry of the
    /// inverse are normal numbers, but 1/det is close to the subnormal range or to overflow
    fn extreme_det_mat(n: usize, bits: u32) -> BoxedStrategy<Vec<f64>> {
        let pi = std::f64::consts::PI;
        let emax: f64 = if bits == 32 { 127.9 } else { 1000.0 }; // f64: headroom for the double-double reference of the sum of |monomials|
        (proptest::collection::vec(-pi..pi, 6), (emax - 28.0)..emax, any::<bool>(), any::<bool>())
            .prop_map(move |(au, ldet, tiny, mirror)| {
                let u = givens(n, &au);
                let l = if tiny { -(ldet - 2.0) } else { ldet };
                let sc = 2f64.powf(l / n as f64);
                let mut m: Vec<f64> = u.iter().map(|x| x * sc).collect();
                if mirror {
                    for r in 0..n {
                        m[r] = -m[r];
                    }
                }
                m
            })
            .boxed()
    }

    /// A real matrix of one of the five kinds, scaled by a power of two and rounded to the scalar type.
    pub fn real_mat(n: usize, bits: u32) -> BoxedStrategy<Vec<f64>> {
        let g: i32 = if bits == 32 { 10 } else { 60 };
        let scaled = (prop_oneof![40 => kappa_mat(n, bits), 25 => trs_mat(n, bits), 20 => dense_mat(n), 15 => near_unit_mat(n, bits)], -g..=g, 0u8..3)
            .prop_map(move |(m, g, use_g)| {
                let s = if use_g == 0 { 2f64.powi(g) } else { 1.0 };
                m.iter().map(|x| round_to(bits, x * s)).collect::<Vec<f64>>()
            });
        let extreme = extreme_det_mat(n, bits).prop_map(move |m| m.iter().map(|x| round_to(bits, *x)).collect::<Vec<f64>>());
        // the identity plus a perturbation of 1e-6 and less in some entries (a tiny rotation, shear or translation, the residue
        // of B * B.inverse()): not the identity, whatever an approximate comparison says
        let jmax: f64 = if bits == 32 { 9.0 } else { 15.0 };
        let near_identity = proptest::collection::vec((0u8..2, 6.0f64..jmax, any::<bool>()), n * n).prop_map(move |e| {
            (0..n * n)
                .map(|i| {
                    let (k, j, neg) = e[i];
                    let d = if k == 0 { 0.0 } else { 10f64.powf(-j) * if neg { -1.0 } else { 1.0 } };
                    round_to(bits, if i / n == i % n { 1.0 + d } else { d })
                })
                .collect::<Vec<f64>>()
        });
        return prop_oneof![88 => scaled, 8 => extreme, 4 => near_identity].boxed();
        #[allow(unreachable_code)]
        (prop_oneof![40 => kappa_mat(n, bits), 25 => trs_mat(n, bits), 20 => dense_mat(n), 15 => near_unit_mat(n, bits)], -g..=g, 0u8..3)
            .prop_map(move |(m, g, use_g)| {
                let s = if use_g == 0 { 2f64.powi(g) } else { 1.0 };
                m.iter().map(|x| round_to(bits, x * s)).collect::<Vec<f64>>()
            })
            .boxed()
    }

    /// vector with log-uniform component magnitudes 2^-10..2^10, occasional zero
    pub fn real_vec(n: usize, bits: u32) -> BoxedStrategy<Vec<f64>> {
        proptest::collection::vec((any::<bool>(), -10.0f64..10.0, 0u8..12), n)
            .prop_map(move |v| v.iter().map(|(s, e, z)| round_to(bits, if *z == 0 { 0.0 } else { 2f64.powf(*e) * if *s { -1.0 } else { 1.0 } })).collect::<Vec<f64>>())
            .boxed()
    }
}

mod simd {
    pub const VARIANT: &str = "simd";
    use ::glam_simd as glam;
    include!("suite.rs");
}
mod scalar {
    pub const VARIANT: &str = "scalar";
    use ::glam_scalar as glam;
    include!("suite.rs");
}
/// scalar-math with `glam-assert`: the second pass for the scalar copies (a quarter of the volume)
#[cfg(not(feature = "core"))]
mod scalar_asserting {
    pub const VARIANT: &str = "scalar+glam-assert";
    use ::glam_scalar_assert as glam;
    include!("suite.rs");
}
/// the same algebra with `glam-assert` compiled in: the only documented precondition is det != 0, so every invertible
/// matrix (either orientation, any determinant size) must still invert; a panic is reported as a failure
#[cfg(not(feature = "core"))]
mod asserting {
    pub const VARIANT: &str = "simd+glam-assert";
    use ::glam_assert as glam;
    include!("suite.rs");
}
#[cfg(feature = "core")]
mod core_simd {
    pub const VARIANT: &str = "core";
    use ::glam_core as glam;
    include!("suite.rs");
}
/// core-simd with `glam-assert`: the second pass for the portable-simd copies (a quarter of the volume)
#[cfg(feature = "core")]
mod core_asserting {
    pub const VARIANT: &str = "core+glam-assert";
    use ::glam_core_assert as glam;
    include!("suite.rs");
}

fn main() {
    let args = Args::parse();
    let mut subs = vec![];
    #[cfg(not(feature = "core"))]
    {
        subs.extend(simd::subs(&args));
        subs.extend(scalar::subs(&args));
        // only the sub-checks that never call inverse() on a singular matrix
        subs.extend(asserting::subs(&args).into_iter().filter(|s| s.name.starts_with("real/") || s.name.starts_with("exhaustive")));
        subs.extend(scalar_asserting::subs(&args).into_iter().filter(|s| s.name.starts_with("real/") || s.name.starts_with("exhaustive")).map(|s| s.with_div(4)));
    }
    #[cfg(feature = "core")]
    {
        subs.extend(core_simd::subs(&args));
        subs.extend(core_asserting::subs(&args).into_iter().filter(|s| s.name.starts_with("real/") || s.name.starts_with("exhaustive")).map(|s| s.with_div(4)));
    }
    let code = main_with("C03", "see MANIFEST / evidence rule", &args, subs);
    std::process::exit(code);
}
