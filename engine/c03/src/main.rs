//! C03 — not implemented yet.
fn main() {
    eprintln!("c03: not implemented");
    std::process::exit(2);
}
