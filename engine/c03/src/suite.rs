// Included once per glam variant (`glam` is aliased by the including module).
use super::gen;
use super::refm::{Num, RM};
use super::Fl;
#[allow(unused_imports)]
use glam::{DMat2, DMat3, DMat4, DVec2, DVec3, DVec4, Mat2, Mat3, Mat3A, Mat4, Vec2, Vec3, Vec3A, Vec4};
use proptest::prelude::*;
use serde_json::json;
use vcore::lattice;
use vcore::*;

type Forms<X> = Vec<(&'static str, X)>;

/// Everything the checks need from one glam matrix type, in every operator / method form.
pub trait MatT: Copy + 'static {
    type T: Fl;
    const N: usize;
    const TY: &'static str;
    fn mk(a: &[Self::T]) -> Self;
    fn to(&self) -> [Self::T; 16];
    fn det(&self) -> Self::T;
    fn inv(&self) -> Self;
    fn transp(&self) -> Self;
    fn negate(&self) -> Self;
    fn mul_forms(a: &Self, b: &Self) -> Forms<Self>;
    fn add_forms(a: &Self, b: &Self) -> Forms<Self>;
    fn sub_forms(a: &Self, b: &Self) -> Forms<Self>;
    fn scal_forms(a: &Self, s: Self::T) -> Forms<Self>;
    fn div_forms(a: &Self, s: Self::T) -> Forms<Self>;
    fn mulv_forms(a: &Self, v: &[Self::T]) -> Forms<[Self::T; 4]>;
    fn fold_forms(l: &[Self]) -> (Forms<Self>, Forms<Self>);
}

fn pad<T: Copy + Default, const K: usize>(a: [T; K]) -> [T; 4] {
    let mut o = [T::default(); 4];
    o[..K].copy_from_slice(&a);
    o
}

macro_rules! mat_impl {
    ($M:ident, $T:ident, $n:expr, $V:ident, $mulmat:ident, $addmat:ident, $submat:ident, $mulvec:ident, |$a:ident, $v:ident, $o:ident| $extra:block) => {
        impl MatT for $M {
            type T = $T;
            const N: usize = $n;
            const TY: &'static str = stringify!($M);
            fn mk(a: &[$T]) -> Self {
                let mut x = [0.0 as $T; $n * $n];
                x.copy_from_slice(&a[..$n * $n]);
                <$M as Junk>::junk($M::from_cols_array(&x))
            }
            fn to(&self) -> [$T; 16] {
                let a = self.to_cols_array();
                let mut o = [0.0 as $T; 16];
                o[..$n * $n].copy_from_slice(&a);
                o
            }
            fn det(&self) -> $T {
                self.determinant()
            }
            fn inv(&self) -> Self {
                self.inverse()
            }
            fn transp(&self) -> Self {
                self.transpose()
            }
            fn negate(&self) -> Self {
                -*self
            }
            fn mul_forms(a: &Self, b: &Self) -> Forms<Self> {
                let mut x = *a;
                x *= *b;
                vec![("A*B", *a * *b), (stringify!($mulmat), a.$mulmat(b)), ("A*=B", x)]
            }
            fn add_forms(a: &Self, b: &Self) -> Forms<Self> {
                let mut x = *a;
                x += *b;
                vec![("A+B", *a + *b), (stringify!($addmat), a.$addmat(b)), ("A+=B", x)]
            }
            fn sub_forms(a: &Self, b: &Self) -> Forms<Self> {
                let mut x = *a;
                x -= *b;
                vec![("A-B", *a - *b), (stringify!($submat), a.$submat(b)), ("A-=B", x)]
            }
            fn scal_forms(a: &Self, s: $T) -> Forms<Self> {
                let mut x = *a;
                x *= s;
                vec![("A*s", *a * s), ("s*A", s * *a), ("mul_scalar", a.mul_scalar(s)), ("A*=s", x)]
            }
            fn div_forms(a: &Self, s: $T) -> Forms<Self> {
                let mut x = *a;
                x /= s;
                vec![("A/s", *a / s), ("div_scalar", a.div_scalar(s)), ("A/=s", x)]
            }
            fn mulv_forms($a: &Self, $v: &[$T]) -> Forms<[$T; 4]> {
                let vv = $V::from_slice(&$v[..$n]);
                let mut $o: Forms<[$T; 4]> = vec![("M*v", pad((*$a * vv).to_array())), (stringify!($mulvec), pad($a.$mulvec(vv).to_array()))];
                $extra
                $o
            }
            fn fold_forms(l: &[Self]) -> (Forms<Self>, Forms<Self>) {
                (
                    vec![("Product by value", l.iter().copied().product()), ("Product by ref", l.iter().product())],
                    vec![("Sum by value", l.iter().copied().sum()), ("Sum by ref", l.iter().sum())],
                )
            }
        }
    };
}

/// Mat3A operands and its Vec3A right-hand sides carry junk in the padding lanes of their 16-byte columns
/// (no result may depend on it); every other type is packed
trait Junk: Sized {
    fn junk(self) -> Self {
        self
    }
}
impl Junk for Mat2 {}
impl Junk for Mat3 {}
impl Junk for Mat4 {}
impl Junk for DMat2 {}
impl Junk for DMat3 {}
impl Junk for DMat4 {}
impl Junk for Mat3A {
    fn junk(self) -> Self {
        let j = |v: Vec3A, h: u32| Vec3A::from_vec4(glam::Vec4::new(v.x, v.y, v.z, f32::from_bits(h)));
        Mat3A::from_cols(j(self.x_axis, 0x7fc0_0001), j(self.y_axis, 0xff80_0000), j(self.z_axis, 0x7149_f2ca ^ (self.x_axis.x.to_bits() >> 11)))
    }
}

mat_impl!(Mat2, f32, 2, Vec2, mul_mat2, add_mat2, sub_mat2, mul_vec2, |_a, _v, _o| {});
mat_impl!(Mat3, f32, 3, Vec3, mul_mat3, add_mat3, sub_mat3, mul_vec3, |a, v, o| {
    let va = Vec3A::from_vec4(glam::Vec4::new(v[0], v[1], v[2], f32::from_bits(0x7f80_0000 | (v[1].to_bits() >> 9))));
    o.push(("Mat3*Vec3A", pad((*a * va).to_array())));
    o.push(("mul_vec3a", pad(a.mul_vec3a(va).to_array())));
});
mat_impl!(Mat3A, f32, 3, Vec3A, mul_mat3, add_mat3, sub_mat3, mul_vec3a, |a, v, o| {
    let v3 = Vec3::from_slice(&v[..3]);
    o.push(("Mat3A*Vec3", pad((*a * v3).to_array())));
    o.push(("mul_vec3", pad(a.mul_vec3(v3).to_array())));
});
mat_impl!(Mat4, f32, 4, Vec4, mul_mat4, add_mat4, sub_mat4, mul_vec4, |_a, _v, _o| {});
mat_impl!(DMat2, f64, 2, DVec2, mul_mat2, add_mat2, sub_mat2, mul_vec2, |_a, _v, _o| {});
mat_impl!(DMat3, f64, 3, DVec3, mul_mat3, add_mat3, sub_mat3, mul_vec3, |_a, _v, _o| {});
mat_impl!(DMat4, f64, 4, DVec4, mul_mat4, add_mat4, sub_mat4, mul_vec4, |_a, _v, _o| {});

fn fail<M: MatT>(op: &str, form: &str, msg: String) -> Fail {
    Fail::new(format!("C03/{}/{}/{}", VARIANT, M::TY, op), format!("{op}[{form}]"), msg)
}

fn ints(w: &[u64]) -> Vec<i64> {
    w.iter().map(|x| *x as i64).collect()
}
fn to_t<T: Fl>(a: &[i64]) -> Vec<T> {
    a.iter().map(|x| T::of64(*x as f64)).collect()
}
fn to_i128(a: &[i64]) -> Vec<i128> {
    a.iter().map(|x| *x as i128).collect()
}
fn exact_limit<T: Fl>() -> i128 {
    if T::BITS == 32 {
        1 << 24
    } else {
        1 << 53
    }
}
fn show<T: Fl>(a: &[T]) -> String {
    format!("{:?}", a)
}

/// entries of a glam matrix against an exact integer matrix
fn exact_mat<M: MatT>(op: &str, form: &str, got: &M, exp: &RM<i128>, ctx: &dyn Fn() -> String) -> Result<(), Fail> {
    let n = M::N;
    let g = got.to();
    for c in 0..n {
        for r in 0..n {
            let x = g[c * n + r].to64();
            let e = exp.at(r, c);
            if !(x == e as f64) {
                return Err(fail::<M>(op, form, format!("entry (row {r}, col {c}): got {:?} expected exactly {}; {}", g[c * n + r], e, ctx())));
            }
        }
    }
    Ok(())
}

/// per-entry IEEE-primitive comparison (value equality, NaN matches NaN)
fn prim_mat<M: MatT>(op: &str, form: &str, got: &M, exp: &[M::T], ctx: &dyn Fn() -> String) -> Result<(), Fail> {
    let g = got.to();
    for i in 0..M::N * M::N {
        if !<M::T as Fl>::ieq(g[i], exp[i]) {
            return Err(fail::<M>(op, form, format!("entry {i} (column-major): got {:?} (0x{:x}) expected {:?} (0x{:x}); {}", g[i], g[i].tb(), exp[i], exp[i].tb(), ctx())));
        }
    }
    Ok(())
}

/// bit-for-bit comparison
fn bits_mat<M: MatT>(op: &str, got: &M, exp: &[u64], ctx: &dyn Fn() -> String) -> Result<(), Fail> {
    let g = got.to();
    for i in 0..M::N * M::N {
        if g[i].tb() != exp[i] {
            return Err(fail::<M>(op, "", format!("entry {i} (column-major): got bits 0x{:x} expected 0x{:x}; {}", g[i].tb(), exp[i], ctx())));
        }
    }
    Ok(())
}

fn lat_nontrivial(n: usize, a: &RM<i128>, det: i128) -> bool {
    a.nonzero() * 4 >= n * n * 3 || det == 0
}

/// determinant, transpose, negation and inverse (against the integer adjugate) of one integer-lattice matrix
fn check_unary_lattice<M: MatT>(a: &[i64], t: &mut Tally, tally: bool) -> Result<(), Fail> {
    let n = M::N;
    let ai = RM::<i128>::from_cols(n, &to_i128(a));
    let at: Vec<M::T> = to_t(a);
    let m = M::mk(&at);
    let ctx = || format!("M(cols)={:?}", a);
    let sdet = ai.abs().det_s(false);
    let det = ai.det();
    if tally {
        let nz = ai.nonzero();
        t.class(if det == 0 && nz * 4 >= n * n * 3 {
            "lattice:rank-deficient-dense"
        } else if det == 0 {
            "lattice:singular-sparse"
        } else if nz == n {
            "lattice:signed-permutation"
        } else if nz == n * n {
            "lattice:dense-all-nonzero"
        } else if nz * 4 >= n * n * 3 {
            "lattice:dense>=75%"
        } else {
            "lattice:sparse"
        });
    }
    if sdet >= exact_limit::<M::T>() {
        // never produced by the generators; the exactness domain is a precondition of the claims below
        t.class("lattice:outside-exactness-domain");
        return Ok(());
    }
    // determinant: the exact integer
    let d = m.det();
    if !(d.to64() == det as f64) {
        return Err(fail::<M>("determinant", "", format!("got {:?} expected exactly {}; {}", d, det, ctx())));
    }
    // transpose: an exact move
    let tr = ai.transpose();
    let tb: Vec<u64> = (0..n * n).map(|i| <M::T as Fl>::of64(tr.e[i / n][i % n] as f64).tb()).collect();
    bits_mat::<M>("transpose", &m.transp(), &tb, &ctx)?;
    // negation: exact sign flip
    let nb: Vec<u64> = at.iter().map(|x| x.tb() ^ <M::T as Fl>::SIGN).collect();
    bits_mat::<M>("neg", &m.negate(), &nb, &ctx)?;
    // inverse * det against the integer adjugate: adj and det are exact on the lattice, 1/det and the
    // multiplication round once each -> |inv*det - adj| <= 4 u |adj| (2 operations + 2); exact when det = ±2^k
    if det != 0 {
        let adj = ai.adj_s(true);
        let inv = m.inv().to();
        let u = <M::T as Fl>::U;
        let rdet = <<M::T as Fl>::R as Num>::of(det as f64);
        let pow2 = (det.unsigned_abs()).is_power_of_two();
        for c in 0..n {
            for r in 0..n {
                let e = adj.at(r, c);
                let got = inv[c * n + r];
                let err = got.r().nmul(rdet).nsub(<<M::T as Fl>::R as Num>::of(e as f64)).nabs().f();
                let tol = if pow2 { 0.0 } else { 4.0 * u * (e as f64).abs() };
                if !(err <= tol) {
                    return Err(fail::<M>(
                        "inverse",
                        "lattice",
                        format!("entry (row {r}, col {c}): inverse={:?}, inverse*det={:e} but adjugate entry is {} (det={}), |diff|={:e} > tol={:e}; {}", got, got.to64() * det as f64, e, det, err, tol, ctx()),
                    ));
                }
                if tol > 0.0 {
                    t.ratio("lattice-inverse*det-vs-adjugate", err / tol);
                }
            }
        }
    }
    Ok(())
}

/// words: A[n²] B[n²] v[n] s — all small integers (two's complement i64)
fn check_lattice<M: MatT>(w: &[u64], t: &mut Tally) -> Result<(), Fail> {
    let n = M::N;
    let nn = n * n;
    let a = ints(&w[0..nn]);
    let b = ints(&w[nn..2 * nn]);
    let v = ints(&w[2 * nn..2 * nn + n]);
    let s = w[2 * nn + n] as i64;
    t.eval(1);
    let ai = RM::<i128>::from_cols(n, &to_i128(&a));
    let bi = RM::<i128>::from_cols(n, &to_i128(&b));
    if lat_nontrivial(n, &ai, ai.det()) {
        t.nontrivial(mix(hash_str(M::TY), mix(hash_str(VARIANT), fnv(w))));
        if t.want_sample() {
            t.sample(json!({"type": M::TY, "variant": VARIANT, "kind": "integer lattice", "A_cols": a, "B_cols": b, "v": v, "s": s, "det_A": ai.det().to_string()}));
        }
    }
    check_unary_lattice::<M>(&a, t, true)?;
    check_unary_lattice::<M>(&b, t, true)?;
    let (at, bt, vt): (Vec<M::T>, Vec<M::T>, Vec<M::T>) = (to_t(&a), to_t(&b), to_t(&v));
    let st = <M::T as Fl>::of64(s as f64);
    let (ma, mb) = (M::mk(&at), M::mk(&bt));
    let ctx = || format!("A(cols)={:?} B(cols)={:?} v={:?} s={}", a, b, v, s);
    // products
    let p = ai.mul(&bi);
    for (form, g) in M::mul_forms(&ma, &mb) {
        exact_mat::<M>("mul_mat", form, &g, &p, &ctx)?;
    }
    let (prods, sums) = M::fold_forms(&[ma, mb]);
    for (form, g) in prods {
        exact_mat::<M>("product", form, &g, &p, &ctx)?;
    }
    // folds over zero, one and three items: the empty product is the identity, the empty sum is zero, order is kept
    {
        let idm = RM::<i128>::from_cols(n, &(0..nn).map(|i| (i / n == i % n) as i128).collect::<Vec<_>>());
        let zm = RM::<i128>::zero(n);
        let (p0, s0) = M::fold_forms(&[]);
        for (form, g) in p0 {
            exact_mat::<M>("product of no items", form, &g, &idm, &ctx)?;
        }
        for (form, g) in s0 {
            exact_mat::<M>("sum of no items", form, &g, &zm, &ctx)?;
        }
        let (p1, s1) = M::fold_forms(&[mb]);
        for (form, g) in p1.into_iter().chain(s1) {
            exact_mat::<M>("fold of one item B", form, &g, &bi, &ctx)?;
        }
        // third item: A transposed
        let ct: Vec<i64> = (0..nn).map(|i| a[(i % n) * n + i / n]).collect();
        let ci = RM::<i128>::from_cols(n, &to_i128(&ct));
        let mc = M::mk(&to_t::<M::T>(&ct));
        let (p3, s3) = M::fold_forms(&[ma, mb, mc]);
        let mut sum3 = RM::<i128>::zero(n);
        for c in 0..n {
            for r in 0..n {
                sum3.e[c][r] = ai.e[c][r] + bi.e[c][r] + ci.e[c][r];
            }
        }
        for (form, g) in s3 {
            exact_mat::<M>("sum of [A, B, At]", form, &g, &sum3, &ctx)?;
        }
        let bound = ai.abs().mul(&bi.abs()).mul(&ci.abs());
        let lim = exact_limit::<M::T>();
        if (0..n).all(|c| (0..n).all(|r| bound.e[c][r] < lim)) {
            let p3e = p.mul(&ci);
            for (form, g) in p3 {
                exact_mat::<M>("product of [A, B, At]", form, &g, &p3e, &ctx)?;
            }
        }
    }
    let vi: Vec<i128> = to_i128(&v);
    let pv = ai.mulv(&vi);
    for (form, g) in M::mulv_forms(&ma, &vt) {
        for r in 0..n {
            if !(g[r].to64() == pv[r] as f64) {
                return Err(fail::<M>("mul_vec", form, format!("row {r}: got {:?} expected exactly {}; {}", g[r], pv[r], ctx())));
            }
        }
    }
    // sums, differences, scaling
    let mut sum = RM::<i128>::zero(n);
    let mut dif = RM::<i128>::zero(n);
    let mut scl = RM::<i128>::zero(n);
    for c in 0..n {
        for r in 0..n {
            sum.e[c][r] = ai.e[c][r] + bi.e[c][r];
            dif.e[c][r] = ai.e[c][r] - bi.e[c][r];
            scl.e[c][r] = ai.e[c][r] * s as i128;
        }
    }
    for (form, g) in M::add_forms(&ma, &mb) {
        exact_mat::<M>("add", form, &g, &sum, &ctx)?;
    }
    for (form, g) in sums {
        exact_mat::<M>("sum", form, &g, &sum, &ctx)?;
    }
    for (form, g) in M::sub_forms(&ma, &mb) {
        exact_mat::<M>("sub", form, &g, &dif, &ctx)?;
    }
    for (form, g) in M::scal_forms(&ma, st) {
        exact_mat::<M>("mul_scalar", form, &g, &scl, &ctx)?;
    }
    let dv: Vec<M::T> = at.iter().map(|x| x.fdiv(st)).collect();
    for (form, g) in M::div_forms(&ma, st) {
        prim_mat::<M>("div_scalar", form, &g, &dv, &ctx)?;
    }
    Ok(())
}

/// tolerance constants: longest evaluation path + 2 (DESIGN.md section 4), slightly rounded up
fn k_adj(n: usize) -> f64 {
    2.0 * n as f64
}
fn k_det(n: usize) -> f64 {
    3.0 * n as f64
}
fn tiny<T: Fl>() -> f64 {
    if T::BITS == 32 {
        1.5e-45
    } else {
        5e-324
    }
}

/// determinant and inverse of one real matrix against the reference cofactor expansion
fn check_unary_real<M: MatT>(at: &[M::T], t: &mut Tally, which: &str) -> Result<(), Fail> {
    let n = M::N;
    let u = <M::T as Fl>::U;
    let ra = RM::<<M::T as Fl>::R>::from_cols(n, &at.iter().map(|x| x.r()).collect::<Vec<_>>());
    let abs = ra.abs();
    let m = M::mk(at);
    let ctx = || format!("{which}(cols)={}", show(at));
    // transpose / negation: bit-exact
    let tb: Vec<u64> = (0..n * n).map(|i| at[(i % n) * n + i / n].tb()).collect();
    bits_mat::<M>("transpose", &m.transp(), &tb, &ctx)?;
    let nb: Vec<u64> = at.iter().map(|x| x.tb() ^ <M::T as Fl>::SIGN).collect();
    bits_mat::<M>("neg", &m.negate(), &nb, &ctx)?;
    // determinant: |d - det| <= k u Σ|monomials|
    let det = ra.det();
    let sdet = abs.det_s(false).f();
    let d = m.det();
    let err = det.nsub(d.r()).nabs().f();
    let tol = k_det(n) * (u * sdet + tiny::<M::T>());
    if !(err <= tol) {
        return Err(fail::<M>("determinant", "real", format!("got {:?} reference {:e}, |diff|={:e} > tol={:e} (= {}·u·Σ|monomials|, Σ={:e}); {}", d, det.f(), err, tol, k_det(n), sdet, ctx())));
    }
    if tol > 0.0 {
        t.ratio("determinant", err / tol);
    }
    // inverse
    let detf = det.f();
    let adj = ra.adj_s(true);
    let sadj = abs.adj_s(false);
    let kappa = if detf != 0.0 { ra.frob() * adj.frob() / detf.abs() } else { f64::INFINITY };
    if which == "A" {
        let dec = if !kappa.is_finite() { "kappa:inf".to_string() } else { format!("kappa:1e{}", (kappa.log10().floor() as i32).clamp(0, 16)) };
        t.class(&dec);
    }
    let eta = k_det(n) * u * sdet / detf.abs();
    if !(eta <= 0.125) {
        t.class("inverse:skipped(det relative error bound > 1/8)");
        return Ok(());
    }
    t.class("inverse:checked");
    let inv = m.inv();
    let iv = inv.to();
    // |inv*det - adj| <= [k_a u S_adj + |adj/det| k_d u S_det]·8/7 + 3 u |adj|
    let mut bound = [[0.0f64; 4]; 4]; // [c][r], already divided by |det|
    for c in 0..n {
        for r in 0..n {
            let a = adj.at(r, c);
            let got = iv[c * n + r];
            let err = got.r().nmul(det).nsub(a).nabs().f();
            let af = a.f().abs();
            let b = (k_adj(n) * u * sadj.at(r, c).f() + af / detf.abs() * k_det(n) * u * sdet) * (8.0 / 7.0) + 3.0 * u * af + 8.0 * tiny::<M::T>();
            bound[c][r] = b / detf.abs();
            if !(err <= b) {
                return Err(fail::<M>(
                    "inverse",
                    "entrywise",
                    format!("entry (row {r}, col {c}): got {:?}, reference adj/det = {:e}/{:e} = {:e}; |got*det - adj|={:e} > bound={:e}; kappa_F={:e}; {}", got, a.f(), detf, a.f() / detf, err, b, kappa, ctx()),
                ));
            }
            if b > 0.0 {
                t.ratio("inverse-entrywise", err / b);
            }
        }
    }
    // residuals M*inv - I and inv*M - I, bounded by |M|·bound resp. bound·|M|
    let ri = RM::<<M::T as Fl>::R>::from_cols(n, &iv[..n * n].iter().map(|x| x.r()).collect::<Vec<_>>());
    let left = ra.mul(&ri);
    let right = ri.mul(&ra);
    for c in 0..n {
        for r in 0..n {
            let id = if r == c { <<M::T as Fl>::R as Num>::one() } else { <<M::T as Fl>::R as Num>::zero() };
            let el = left.at(r, c).nsub(id).nabs().f();
            let er = right.at(r, c).nsub(id).nabs().f();
            let mut bl = 0.0;
            let mut br = 0.0;
            for k in 0..n {
                bl += abs.at(r, k).f() * bound[c][k];
                br += bound[k][r] * abs.at(k, c).f();
            }
            if !(el <= bl) || !(er <= br) {
                return Err(fail::<M>(
                    "inverse",
                    "residual",
                    format!("(row {r}, col {c}): |M*inv - I|={:e} (bound {:e}), |inv*M - I|={:e} (bound {:e}); kappa_F={:e}; {}", el, bl, er, br, kappa, ctx()),
                ));
            }
            if bl > 0.0 {
                t.ratio("inverse-residual", el / bl);
            }
            if br > 0.0 {
                t.ratio("inverse-residual", er / br);
            }
        }
    }
    Ok(())
}

/// words: A[n²] B[n²] v[n] s as float bit patterns (finite, well scaled)
fn check_real<M: MatT>(w: &[u64], t: &mut Tally) -> Result<(), Fail> {
    let n = M::N;
    let nn = n * n;
    let u = <M::T as Fl>::U;
    let dec = |x: &[u64]| -> Vec<M::T> { x.iter().map(|b| <M::T as Fl>::fb(*b)).collect() };
    let at = dec(&w[0..nn]);
    let bt = dec(&w[nn..2 * nn]);
    let vt = dec(&w[2 * nn..2 * nn + n]);
    let st = <M::T as Fl>::fb(w[2 * nn + n]);
    t.eval(1);
    type Rr<M> = <<M as MatT>::T as Fl>::R;
    let ra = RM::<Rr<M>>::from_cols(n, &at.iter().map(|x| x.r()).collect::<Vec<_>>());
    let rb = RM::<Rr<M>>::from_cols(n, &bt.iter().map(|x| x.r()).collect::<Vec<_>>());
    let detf = ra.det().f();
    let kappa = if detf != 0.0 { ra.frob() * ra.adj_s(true).frob() / detf.abs() } else { f64::INFINITY };
    let nz = ra.nonzero();
    t.class(if nz == nn { "real:all-nonzero" } else if nz * 4 >= nn * 3 { "real:>=75%-nonzero" } else { "real:sparse" });
    if nz * 4 >= nn * 3 || kappa >= 100.0 {
        t.nontrivial(mix(hash_str(M::TY), mix(hash_str(VARIANT), fnv(w))));
        if t.want_sample() {
            t.sample(json!({"type": M::TY, "variant": VARIANT, "kind": "real", "A_cols": ra.list(), "B_cols": rb.list(), "v": vt.iter().map(|x| x.to64()).collect::<Vec<_>>(), "kappa_F_A": kappa, "words": hexwords(w)}));
        }
    }
    check_unary_real::<M>(&at, t, "A")?;
    check_unary_real::<M>(&bt, t, "B")?;
    let (ma, mb) = (M::mk(&at), M::mk(&bt));
    let ctx = || format!("A(cols)={} B(cols)={} v={} s={:?}", show(&at), show(&bt), show(&vt), st);
    // products: |r - R| <= (n+2) u (|A||B|)
    let kp = n as f64 + 2.0;
    let p = ra.mul(&rb);
    let sp = ra.abs().mul(&rb.abs());
    for (form, g) in M::mul_forms(&ma, &mb) {
        let ge = g.to();
        for c in 0..n {
            for r in 0..n {
                let err = p.at(r, c).nsub(ge[c * n + r].r()).nabs().f();
                let tol = kp * (u * sp.at(r, c).f() + tiny::<M::T>());
                if !(err <= tol) {
                    return Err(fail::<M>("mul_mat", form, format!("entry (row {r}, col {c}): got {:?} reference {:e}, |diff|={:e} > tol={:e}; {}", ge[c * n + r], p.at(r, c).f(), err, tol, ctx())));
                }
                if tol > 0.0 {
                    t.ratio("mul_mat", err / tol);
                }
            }
        }
    }
    let rv: Vec<Rr<M>> = vt.iter().map(|x| x.r()).collect();
    let pv = ra.mulv(&rv);
    let spv = ra.abs().mulv(&rv.iter().map(|x| x.nabs()).collect::<Vec<_>>());
    for (form, g) in M::mulv_forms(&ma, &vt) {
        for r in 0..n {
            let err = pv[r].nsub(g[r].r()).nabs().f();
            let tol = kp * (u * spv[r].f() + tiny::<M::T>());
            if !(err <= tol) {
                return Err(fail::<M>("mul_vec", form, format!("row {r}: got {:?} reference {:e}, |diff|={:e} > tol={:e}; {}", g[r], pv[r].f(), err, tol, ctx())));
            }
            if tol > 0.0 {
                t.ratio("mul_vec", err / tol);
            }
        }
    }
    entrywise::<M>(&at, &bt, st, &ma, &mb, &ctx)
}

/// +, -, scalar * and /: the IEEE primitive per entry
fn entrywise<M: MatT>(at: &[M::T], bt: &[M::T], st: M::T, ma: &M, mb: &M, ctx: &dyn Fn() -> String) -> Result<(), Fail> {
    let zip = |f: &dyn Fn(M::T, M::T) -> M::T| -> Vec<M::T> { at.iter().zip(bt.iter()).map(|(x, y)| f(*x, *y)).collect() };
    let e = zip(&|x, y| x.fadd(y));
    for (form, g) in M::add_forms(ma, mb) {
        prim_mat::<M>("add", form, &g, &e, ctx)?;
    }
    let e = zip(&|x, y| x.fsub(y));
    for (form, g) in M::sub_forms(ma, mb) {
        prim_mat::<M>("sub", form, &g, &e, ctx)?;
    }
    let e: Vec<M::T> = at.iter().map(|x| x.fmul(st)).collect();
    for (form, g) in M::scal_forms(ma, st) {
        prim_mat::<M>("mul_scalar", form, &g, &e, ctx)?;
    }
    let e: Vec<M::T> = at.iter().map(|x| x.fdiv(st)).collect();
    for (form, g) in M::div_forms(ma, st) {
        prim_mat::<M>("div_scalar", form, &g, &e, ctx)?;
    }
    Ok(())
}

/// words: A[n²] B[n²] s as arbitrary bit patterns (special-value lattice): the moves and per-entry operations
fn check_entry<M: MatT>(w: &[u64], t: &mut Tally) -> Result<(), Fail> {
    let n = M::N;
    let nn = n * n;
    let dec = |x: &[u64]| -> Vec<M::T> { x.iter().map(|b| <M::T as Fl>::fb(*b)).collect() };
    let at = dec(&w[0..nn]);
    let bt = dec(&w[nn..2 * nn]);
    let st = <M::T as Fl>::fb(w[2 * nn]);
    t.eval(1);
    let mut special = false;
    for i in 0..2 * nn {
        let cl = lattice::class(<M::T as Fl>::BITS, w[i]);
        t.class(cl);
        special |= !(cl == "ordinary" || cl == "integer");
    }
    if special {
        t.nontrivial(mix(hash_str(M::TY), mix(hash_str(VARIANT), fnv(w))));
        if t.want_sample() {
            t.sample(json!({"type": M::TY, "variant": VARIANT, "kind": "bit patterns", "A_cols": show(&at), "B_cols": show(&bt), "s": format!("{:?}", st), "words": hexwords(w)}));
        }
    }
    let (ma, mb) = (M::mk(&at), M::mk(&bt));
    let ctx = || format!("A(cols)={} B(cols)={} s={:?} words={:?}", show(&at), show(&bt), st, hexwords(w));
    let tb: Vec<u64> = (0..nn).map(|i| at[(i % n) * n + i / n].tb()).collect();
    bits_mat::<M>("transpose", &ma.transp(), &tb, &ctx)?;
    let nb: Vec<u64> = at.iter().map(|x| x.tb() ^ <M::T as Fl>::SIGN).collect();
    bits_mat::<M>("neg", &ma.negate(), &nb, &ctx)?;
    entrywise::<M>(&at, &bt, st, &ma, &mb, &ctx)
}

/// words: M[n²] small integers; the enumerated sub-checks
fn check_enum<M: MatT>(w: &[u64], t: &mut Tally) -> Result<(), Fail> {
    let n = M::N;
    let a = ints(&w[0..n * n]);
    check_unary_lattice::<M>(&a, t, false)?;
    // M*v with a fixed dense v and M*Mᵀ (exact)
    let ai = RM::<i128>::from_cols(n, &to_i128(&a));
    let v: Vec<i64> = [3i64, -2, 5, -7][..n].to_vec();
    let at: Vec<M::T> = to_t(&a);
    let m = M::mk(&at);
    let pv = ai.mulv(&to_i128(&v));
    let ctx = || format!("M(cols)={:?} v={:?}", a, v);
    for (form, g) in M::mulv_forms(&m, &to_t::<M::T>(&v)) {
        for r in 0..n {
            if !(g[r].to64() == pv[r] as f64) {
                return Err(fail::<M>("mul_vec", form, format!("row {r}: got {:?} expected exactly {}; {}", g[r], pv[r], ctx())));
            }
        }
    }
    let p = ai.mul(&ai.transpose());
    for (form, g) in M::mul_forms(&m, &m.transp()) {
        exact_mat::<M>("mul_mat", form, &g, &p, &ctx)?;
    }
    Ok(())
}

fn words_i(parts: &[&[i64]]) -> Vec<u64> {
    parts.iter().flat_map(|p| p.iter().map(|x| *x as u64)).collect()
}

fn strat_lattice<M: MatT>() -> BoxedStrategy<Vec<u64>> {
    let n = M::N;
    let bits = <M::T as Fl>::BITS;
    let e = gen::emax(n, bits);
    (gen::lat_mat(n, bits), gen::lat_mat(n, bits), proptest::collection::vec(prop_oneof![-8i64..=8, -e..=e], n), -8i64..=8)
        .prop_map(|(a, b, v, s)| words_i(&[&a, &b, &v, &[s]]))
        .boxed()
}

fn strat_real<M: MatT>() -> BoxedStrategy<Vec<u64>> {
    let n = M::N;
    let bits = <M::T as Fl>::BITS;
    (gen::real_mat(n, bits), gen::real_mat(n, bits), gen::real_vec(n, bits), gen::real_vec(1, bits))
        .prop_map(|(a, b, v, s)| a.iter().chain(b.iter()).chain(v.iter()).chain(s.iter()).map(|x| <M::T as Fl>::of64(*x).tb()).collect::<Vec<u64>>())
        .boxed()
}

fn strat_entry<M: MatT>() -> BoxedStrategy<Vec<u64>> {
    let nn = M::N * M::N;
    let bits = <M::T as Fl>::BITS;
    (lattice::lane_pairs(bits, nn), lattice::lat(bits))
        .prop_map(|(mut ab, s)| {
            ab.push(s);
            ab
        })
        .boxed()
}

fn push_subs<'a, M: MatT>(out: &mut Vec<SubCheck<'a>>) {
    out.push(SubCheck::new(
        format!("lattice/{}/{}", M::TY, VARIANT),
        4,
        |env: &mut Env| {
            let n = env.cases(60_000, 30);
            env.prop("lattice", n, strat_lattice::<M>(), &check_lattice::<M>);
        },
        check_lattice::<M>,
    ));
    out.push(SubCheck::new(
        format!("real/{}/{}", M::TY, VARIANT),
        4,
        |env: &mut Env| {
            let n = env.cases(60_000, 30);
            env.prop("real", n, strat_real::<M>(), &check_real::<M>);
        },
        check_real::<M>,
    ));
    out.push(SubCheck::new(
        format!("entrywise/{}/{}", M::TY, VARIANT),
        2,
        |env: &mut Env| {
            let n = env.cases(20_000, 30);
            env.prop("entrywise", n, strat_entry::<M>(), &check_entry::<M>);
        },
        check_entry::<M>,
    ));
}

/// Enumeration of all n×n matrices with entries in [-e, e] (base 2e+1 digits of the index), strided in quick.
fn push_enum<'a, M: MatT>(out: &mut Vec<SubCheck<'a>>, e: i64, quick_stride: u64, shards: u32) {
    out.push(SubCheck::new(
        format!("exhaustive[-{e},{e}]/{}/{}", M::TY, VARIANT),
        shards,
        move |env: &mut Env| {
            let n = M::N;
            let base = (2 * e + 1) as u64;
            let total = base.pow((n * n) as u32);
            let stride = if env.args.tier == Tier::Thorough { 1 } else { quick_stride };
            let offset = if stride == 1 { 0 } else { mix(env.args.seed, 0xC03) % stride };
            let count = (total - offset + stride - 1) / stride;
            let r = env.my_range(count);
            let mut evals = 0u64;
            let mut nontriv = 0u64;
            let mut w = vec![0u64; n * n];
            let mut ai = vec![0i128; n * n];
            for i in r {
                let mut idx = i * stride + offset;
                for k in 0..n * n {
                    let d = (idx % base) as i64 - e;
                    idx /= base;
                    w[k] = d as u64;
                    ai[k] = d as i128;
                }
                let rm = RM::<i128>::from_cols(n, &ai);
                evals += 1;
                nontriv += lat_nontrivial(n, &rm, rm.det()) as u64;
                if !env.direct(&w, &check_enum::<M>) {
                    break;
                }
            }
            env.tally.eval(evals);
            env.tally.nontrivial_enum(nontriv);
            env.tally.exhaustive = stride == 1;
            env.tally.notes.insert("stride".into(), json!(stride));
            env.tally.notes.insert("space".into(), json!(total));
        },
        check_enum::<M>,
    ));
}

pub fn subs<'a>(_args: &Args) -> Vec<SubCheck<'a>> {
    let mut out = vec![];
    push_enum::<Mat2>(&mut out, 8, 1, 2);
    push_enum::<DMat2>(&mut out, 8, 1, 2);
    push_enum::<Mat3>(&mut out, 2, 16, 8);
    push_enum::<Mat3A>(&mut out, 2, 16, 8);
    push_enum::<DMat3>(&mut out, 2, 16, 8);
    push_subs::<Mat2>(&mut out);
    push_subs::<Mat3>(&mut out);
    push_subs::<Mat3A>(&mut out);
    push_subs::<Mat4>(&mut out);
    push_subs::<DMat2>(&mut out);
    push_subs::<DMat3>(&mut out);
    push_subs::<DMat4>(&mut out);
    out
}
