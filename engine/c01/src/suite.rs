// Included once per glam variant (`glam` is aliased by the including module).
#[allow(unused_imports)]
use super::Fl;
#[allow(unused_imports)]
use glam::{DVec2, DVec3, DVec4, Vec2, Vec3, Vec3A, Vec4};
use proptest::prelude::*;
use serde_json::json;
use vcore::lattice;
use vcore::*;

fn fail(ty: &str, op: &str, form: &str, msg: String) -> Fail {
    Fail::new(format!("C01/{}/{}/{}", VARIANT, ty, op), format!("{op}[{form}]"), msg)
}

macro_rules! lane_type {
    ($m:ident, $V:ident, $T:ident, $N:expr, $mk:expr) => {
        pub mod $m {
            use super::*;
            pub const N: usize = $N;
            pub type V = $V;
            pub type T = $T;
            pub const TY: &str = stringify!($V);
            pub const BITS: u32 = <T as Fl>::BITS;

            /// builds the vector; for Vec3A the padding lane gets arbitrary content (word `h`), so that an
            /// operation that consults it is not a drop-in for Vec3
            #[inline]
            pub fn mkv(a: [T; N], h: u64) -> V {
                let f: fn([T; N], u64) -> V = $mk;
                f(a, h)
            }
            #[inline]
            pub fn arr(w: &[u64]) -> [T; N] {
                let mut a = [0.0 as T; N];
                for i in 0..N {
                    a[i] = T::fb(w[i]);
                }
                a
            }
            #[inline]
            fn lanes_ok(op: &str, form: &str, got: [T; N], exp: [T; N], skip: [bool; N], ctx: &dyn Fn() -> String) -> Result<(), Fail> {
                for i in 0..N {
                    if !skip[i] && !T::ieq(got[i], exp[i]) {
                        return Err(fail(
                            TY,
                            op,
                            form,
                            format!("lane {i}: got {:?} (0x{:x}) expected {:?} (0x{:x}); {}", got[i], got[i].tb(), exp[i], exp[i].tb(), ctx()),
                        ));
                    }
                }
                Ok(())
            }
            #[inline]
            fn same<X: PartialEq + std::fmt::Debug>(op: &str, form: &str, got: X, exp: X, ctx: &dyn Fn() -> String) -> Result<(), Fail> {
                if got != exp {
                    return Err(fail(TY, op, form, format!("got {:?} expected {:?}; {}", got, exp, ctx())));
                }
                Ok(())
            }

            /// unary lane ops on `a` (also driven by the bit-pattern sweeps)
            pub fn check_unary(a: [T; N], with_exp: bool, hidden: u64) -> Result<(), Fail> {
                let va = mkv(a, hidden);
                let ns = [false; N];
                let ctx = || format!("a={:?}", a);
                macro_rules! un {
                    ($name:expr, $g:expr, $p:expr) => {{
                        let got: V = $g;
                        let mut e = [0.0 as T; N];
                        for i in 0..N {
                            let x = a[i];
                            e[i] = $p(x);
                        }
                        lanes_ok($name, "", got.to_array(), e, ns, &ctx)?;
                    }};
                }
                un!("neg", -va, |x: T| -x);
                un!("neg", -&va, |x: T| -x);
                un!("abs", va.abs(), |x: T| x.abs());
                un!("signum", va.signum(), |x: T| x.signum());
                un!("floor", va.floor(), |x: T| x.floor());
                un!("ceil", va.ceil(), |x: T| x.ceil());
                un!("trunc", va.trunc(), |x: T| x.trunc());
                un!("round", va.round(), |x: T| x.round());
                un!("fract", va.fract(), |x: T| x.fract());
                un!("fract_gl", va.fract_gl(), |x: T| x - x.floor());
                un!("recip", va.recip(), |x: T| x.recip());
                if with_exp {
                    un!("exp", va.exp(), |x: T| x.exp_ref(LIBM));
                }
                // predicates
                let mut nanm = 0u32;
                let mut finm = 0u32;
                let mut negm = 0u32;
                for i in 0..N {
                    if a[i].is_nan() {
                        nanm |= 1 << i
                    }
                    if a[i].is_finite() {
                        finm |= 1 << i
                    }
                    if a[i].is_sign_negative() {
                        negm |= 1 << i
                    }
                }
                let full = (1u32 << N) - 1;
                same("is_nan_mask", "", va.is_nan_mask().bitmask(), nanm, &ctx)?;
                same("is_finite_mask", "", va.is_finite_mask().bitmask(), finm, &ctx)?;
                same("is_nan", "", va.is_nan(), nanm != 0, &ctx)?;
                same("is_finite", "", va.is_finite(), finm == full, &ctx)?;
                same("is_negative_bitmask", "", va.is_negative_bitmask(), negm, &ctx)?;
                // horizontal min/max on non-NaN lanes
                if nanm == 0 {
                    let mut mn = a[0];
                    let mut mx = a[0];
                    for i in 1..N {
                        mn = mn.min(a[i]);
                        mx = mx.max(a[i]);
                    }
                    let g = va.min_element();
                    if !T::ieq(g, mn) {
                        return Err(fail(TY, "min_element", "", format!("got {:?} expected {:?}; {}", g, mn, ctx())));
                    }
                    let g = va.max_element();
                    if !T::ieq(g, mx) {
                        return Err(fail(TY, "max_element", "", format!("got {:?} expected {:?}; {}", g, mx, ctx())));
                    }
                    let pmin = (0..N).find(|&i| a[i] == mn).unwrap();
                    let pmax = (0..N).find(|&i| a[i] == mx).unwrap();
                    same("min_position", "", va.min_position(), pmin, &ctx)?;
                    same("max_position", "", va.max_position(), pmax, &ctx)?;
                }
                Ok(())
            }

            /// words: a[N] b[N] c[N] s
            pub fn check(w: &[u64], t: &mut Tally) -> Result<(), Fail> {
                let a = arr(&w[0..N]);
                let b = arr(&w[N..2 * N]);
                let c = arr(&w[2 * N..3 * N]);
                let s = T::fb(w[3 * N]);
                t.eval(1);
                // tallies
                let mut nontrivial = false;
                for i in 0..3 * N + 1 {
                    let cl = lattice::class(BITS, w[i]);
                    if i < 2 * N {
                        t.class(cl);
                    }
                    if !(cl == "ordinary" || cl == "integer") {
                        nontrivial = true;
                    }
                }
                for i in 0..N {
                    let q = (a[i] / b[i]).abs();
                    if a[i] == b[i] || a[i] == -b[i] {
                        t.class("pair:equal-or-negated");
                        nontrivial = true;
                    } else if q >= 16777216.0 {
                        t.class("pair:huge-quotient");
                        nontrivial = true;
                    } else if (q * 2.0).fract() == 0.0 && q.fract() != 0.0 {
                        t.class("pair:tie-quotient");
                        nontrivial = true;
                    } else if a[i] < 0.0 || b[i] < 0.0 {
                        t.class("pair:negative-operand");
                    }
                }
                if nontrivial {
                    t.nontrivial(mix(hash_str(TY), mix(hash_str(VARIANT), fnv(&w[..3 * N + 1]))));
                    if t.want_sample() {
                        t.sample(json!({"type": TY, "variant": VARIANT, "a": format!("{:?}", a), "b": format!("{:?}", b), "c": format!("{:?}", c), "s": format!("{:?}", s), "words": hexwords(w)}));
                    }
                }
                let (ha, hb, hc) = (w[3 * N + 1], w[3 * N + 2], w[3 * N + 3]);
                let (va, vb, vc) = (mkv(a, ha), mkv(b, hb), mkv(c, hc));
                let ns = [false; N];
                let ctx = || format!("a={:?} b={:?} c={:?} s={:?}", a, b, c, s);

                check_unary(a, true, ha)?;
                check_unary(b, false, hb)?;

                // ---- the five arithmetic operators in every form
                macro_rules! arith {
                    ($name:expr, $op:tt, $opa:tt) => {{
                        let mut e = [0.0 as T; N];
                        for i in 0..N { e[i] = a[i] $op b[i]; }
                        lanes_ok($name, "v,v", (va $op vb).to_array(), e, ns, &ctx)?;
                        lanes_ok($name, "v,&v", (va $op &vb).to_array(), e, ns, &ctx)?;
                        lanes_ok($name, "&v,v", (&va $op vb).to_array(), e, ns, &ctx)?;
                        lanes_ok($name, "&v,&v", (&va $op &vb).to_array(), e, ns, &ctx)?;
                        let mut x = va; x $opa vb;
                        lanes_ok($name, "v op= v", x.to_array(), e, ns, &ctx)?;
                        let mut x = va; x $opa &vb;
                        lanes_ok($name, "v op= &v", x.to_array(), e, ns, &ctx)?;
                        for i in 0..N { e[i] = a[i] $op s; }
                        lanes_ok($name, "v,s", (va $op s).to_array(), e, ns, &ctx)?;
                        lanes_ok($name, "v,&s", (va $op &s).to_array(), e, ns, &ctx)?;
                        lanes_ok($name, "&v,s", (&va $op s).to_array(), e, ns, &ctx)?;
                        lanes_ok($name, "&v,&s", (&va $op &s).to_array(), e, ns, &ctx)?;
                        let mut x = va; x $opa s;
                        lanes_ok($name, "v op= s", x.to_array(), e, ns, &ctx)?;
                        let mut x = va; x $opa &s;
                        lanes_ok($name, "v op= &s", x.to_array(), e, ns, &ctx)?;
                        for i in 0..N { e[i] = s $op a[i]; }
                        lanes_ok($name, "s,v", (s $op va).to_array(), e, ns, &ctx)?;
                        lanes_ok($name, "s,&v", (s $op &va).to_array(), e, ns, &ctx)?;
                        lanes_ok($name, "&s,v", (&s $op va).to_array(), e, ns, &ctx)?;
                        lanes_ok($name, "&s,&v", (&s $op &va).to_array(), e, ns, &ctx)?;
                    }};
                }
                arith!("add", +, +=);
                arith!("sub", -, -=);
                arith!("mul", *, *=);
                arith!("div", /, /=);
                arith!("rem", %, %=);

                // ---- binary methods
                macro_rules! bin {
                    ($name:expr, $g:expr, $p:expr, $skipnan:expr) => {{
                        let got: V = $g;
                        let mut e = [0.0 as T; N];
                        let mut sk = [false; N];
                        for i in 0..N {
                            let (x, y) = (a[i], b[i]);
                            if $skipnan && (x.is_nan() || y.is_nan()) { sk[i] = true; continue; }
                            e[i] = $p(x, y);
                        }
                        lanes_ok($name, "", got.to_array(), e, sk, &ctx)?;
                    }};
                }
                bin!("min", va.min(vb), |x: T, y: T| x.min(y), true);
                bin!("max", va.max(vb), |x: T, y: T| x.max(y), true);
                bin!("copysign", va.copysign(vb), |x: T, y: T| x.copysign(y), false);
                bin!("div_euclid", va.div_euclid(vb), |x: T, y: T| x.div_euclid(y), false);
                bin!("rem_euclid", va.rem_euclid(vb), |x: T, y: T| x.rem_euclid(y), false);
                bin!("powf", va.powf(s), |x: T, _y: T| x.powf_ref(s, LIBM), false);
                bin!("powf", vb.powf(T::fb(w[N])), |_x: T, y: T| y.powf_ref(b[0], LIBM), false);
                {
                    // clamp with per-lane sorted bounds; lanes with a NaN anywhere are not compared
                    let mut lo = b;
                    let mut hi = c;
                    let mut e = [0.0 as T; N];
                    let mut sk = [false; N];
                    for i in 0..N {
                        if a[i].is_nan() || b[i].is_nan() || c[i].is_nan() {
                            sk[i] = true;
                            // keep min <= max on the skipped lane too
                            lo[i] = 0.0;
                            hi[i] = 0.0;
                            continue;
                        }
                        if lo[i] > hi[i] {
                            std::mem::swap(&mut lo[i], &mut hi[i]);
                        }
                        e[i] = a[i].clamp(lo[i], hi[i]);
                    }
                    lanes_ok("clamp", "", va.clamp(mkv(lo, hb), mkv(hi, hc)).to_array(), e, sk, &ctx)?;
                }
                {
                    let mut e = [0.0 as T; N];
                    for i in 0..N {
                        e[i] = a[i].mul_add(b[i], c[i]);
                    }
                    lanes_ok("mul_add", "", va.mul_add(vb, vc).to_array(), e, ns, &ctx)?;
                    for i in 0..N {
                        e[i] = c[i].mul_add(a[i], b[i]);
                    }
                    lanes_ok("mul_add", "", vc.mul_add(va, vb).to_array(), e, ns, &ctx)?;
                }
                // ---- comparisons
                macro_rules! cmp {
                    ($name:expr, $g:expr, $p:expr) => {{
                        let mut m = 0u32;
                        for i in 0..N { if $p(a[i], b[i]) { m |= 1 << i; } }
                        same($name, "", $g.bitmask(), m, &ctx)?;
                    }};
                }
                cmp!("cmpeq", va.cmpeq(vb), |x: T, y: T| x == y);
                cmp!("cmpne", va.cmpne(vb), |x: T, y: T| x != y);
                cmp!("cmplt", va.cmplt(vb), |x: T, y: T| x < y);
                cmp!("cmple", va.cmple(vb), |x: T, y: T| x <= y);
                cmp!("cmpgt", va.cmpgt(vb), |x: T, y: T| x > y);
                cmp!("cmpge", va.cmpge(vb), |x: T, y: T| x >= y);
                // a against itself with one lane replaced: equality laws on the same bits
                cmp!("cmpeq", va.cmpeq(va), |x: T, _y: T| x == x);
                let eq = (0..N).all(|i| a[i] == b[i]);
                same("eq", "==", va == vb, eq, &ctx)?;
                same("ne", "!=", va != vb, !eq, &ctx)?;
                let eqa = (0..N).all(|i| a[i] == a[i]);
                same("eq", "== self", va == va, eqa, &ctx)?;
                let ade = (0..N).all(|i| (a[i] - b[i]).abs() <= s);
                same("abs_diff_eq", "", va.abs_diff_eq(vb, s), ade, &ctx)?;
                let tol = T::fb(w[2 * N]).abs();
                let ade = (0..N).all(|i| (a[i] - b[i]).abs() <= tol);
                same("abs_diff_eq", "", va.abs_diff_eq(vb, tol), ade, &ctx)?;
                Ok(())
            }

            /// words: k, then k*N lanes. Sum / Product are left folds from ZERO / ONE.
            pub fn check_fold(w: &[u64], t: &mut Tally) -> Result<(), Fail> {
                let k = w[0] as usize;
                t.eval(1);
                let mut vs: Vec<V> = vec![];
                let mut arrs: Vec<[T; N]> = vec![];
                for j in 0..k {
                    let a = arr(&w[1 + j * N..1 + (j + 1) * N]);
                    arrs.push(a);
                    vs.push(mkv(a, w[1 + j * N] ^ 0x7fc0_0000));
                }
                if k >= 2 {
                    t.nontrivial(mix(hash_str(TY), mix(hash_str(VARIANT), fnv(w))));
                    if t.want_sample() {
                        t.sample(json!({"type": TY, "variant": VARIANT, "fold_of": format!("{:?}", arrs)}));
                    }
                }
                t.class(&format!("fold-len-{k}"));
                let mut es = [0.0 as T; N];
                let mut ep = [1.0 as T; N];
                for a in &arrs {
                    for i in 0..N {
                        es[i] = es[i] + a[i];
                        ep[i] = ep[i] * a[i];
                    }
                }
                let ctx = || format!("items={:?}", arrs);
                let ns = [false; N];
                let g: V = vs.iter().copied().sum();
                lanes_ok("sum", "by value", g.to_array(), es, ns, &ctx)?;
                let g: V = vs.iter().sum();
                lanes_ok("sum", "by ref", g.to_array(), es, ns, &ctx)?;
                let g: V = vs.iter().copied().product();
                lanes_ok("product", "by value", g.to_array(), ep, ns, &ctx)?;
                let g: V = vs.iter().product();
                lanes_ok("product", "by ref", g.to_array(), ep, ns, &ctx)?;
                Ok(())
            }

            pub fn strat() -> BoxedStrategy<Vec<u64>> {
                (lattice::lane_pairs(BITS, N), lattice::lanes(BITS, N), lattice::lat(BITS), lattice::lanes(BITS, 3))
                    .prop_map(|(mut ab, c, s, h)| {
                        ab.extend(c);
                        ab.push(s);
                        ab.extend(h);
                        ab
                    })
                    .boxed()
            }
            pub fn strat_fold() -> BoxedStrategy<Vec<u64>> {
                // lengths 0..8 mostly; a quarter of the folds have 9..40 items (an implementation that sums in blocks or pairwise
                // is a left fold for short inputs), half of those over ordinary magnitudes within 2^+-12 where addition rounds
                let ordinary = (any::<u64>(), 0u64..25, any::<bool>()).prop_map(|(m, e, s)| {
                    if BITS == 32 {
                        ((s as u64) << 31) | ((115 + e) << 23) | (m & 0x7f_ffff)
                    } else {
                        ((s as u64) << 63) | ((1011 + e) << 52) | (m & 0xf_ffff_ffff_ffff)
                    }
                });
                let item = prop_oneof![lattice::lat(BITS), ordinary.boxed()];
                prop_oneof![3 => (0usize..=8, Just(false)), 1 => (9usize..=40, any::<bool>())]
                    .prop_flat_map(move |(k, ord)| proptest::collection::vec(if ord { item.clone().boxed() } else { lattice::lat(BITS) }, k * N).prop_map(move |v| {
                        let mut w = vec![k as u64];
                        w.extend(v);
                        w
                    }))
                    .boxed()
            }

            pub fn subs<'a>(out: &mut Vec<SubCheck<'a>>) {
                out.push(SubCheck::new(
                    format!("lanewise/{}/{}", TY, VARIANT),
                    2,
                    |env: &mut Env| {
                        let n = env.cases(40_000, 50);
                        env.prop("lanewise", n, strat(), &check);
                    },
                    check,
                ));
                out.push(SubCheck::new(
                    format!("fold/{}/{}", TY, VARIANT),
                    1,
                    |env: &mut Env| {
                        let n = env.cases(10_000, 50);
                        env.prop("fold", n, strat_fold(), &check_fold);
                    },
                    check_fold,
                ));
            }
        }
    };
}

lane_type!(vec2, Vec2, f32, 2, |a, _h| Vec2::from_array(a));
lane_type!(vec3, Vec3, f32, 3, |a, _h| Vec3::from_array(a));
lane_type!(vec3a, Vec3A, f32, 3, |a, h| Vec3A::from_vec4(Vec4::new(a[0], a[1], a[2], f32::from_bits(h as u32))));
lane_type!(vec4, Vec4, f32, 4, |a, _h| Vec4::from_array(a));
lane_type!(dvec2, DVec2, f64, 2, |a, _h| DVec2::from_array(a));
lane_type!(dvec3, DVec3, f64, 3, |a, _h| DVec3::from_array(a));
lane_type!(dvec4, DVec4, f64, 4, |a, _h| DVec4::from_array(a));

/// Sweep of f32 bit patterns through the unary lane ops (strided in quick, complete in thorough).
macro_rules! sweep {
    ($m:ident, $out:expr, $shards:expr) => {{
        let chk = |w: &[u64], _t: &mut Tally| -> Result<(), Fail> { $m::check_unary($m::arr(w), false, w[0] ^ 0x7fc0_0000) };
        $out.push(SubCheck::new(
            format!("sweep-unary/{}/{}", $m::TY, VARIANT),
            $shards,
            move |env: &mut Env| {
                const N: usize = $m::N;
                let stride: u64 = if env.args.tier == Tier::Thorough { 1 } else { 251 };
                let total: u64 = (1u64 << 32) / stride;
                let r = env.my_range(total);
                let mut nontriv = 0u64;
                let mut evals = 0u64;
                let mut idx = r.start;
                let offset = mix(env.args.seed, 77) % stride;
                while idx < r.end {
                    let mut w = [0u64; N];
                    // consecutive strided patterns, rotated so that each pattern meets each lane position over the sweep
                    let mut nt = false;
                    for l in 0..N {
                        let p = ((idx + l as u64).min(total - 1) * stride + offset) & 0xffff_ffff;
                        w[((idx as usize) + l) % N] = p;
                        let cl = lattice::class_f32(p as u32);
                        nt |= !(cl == "ordinary" || cl == "integer");
                    }
                    nontriv += nt as u64;
                    evals += 1;
                    if !env.direct(&w, &chk) {
                        break;
                    }
                    idx += N as u64;
                }
                env.tally.eval(evals);
                env.tally.nontrivial_enum(nontriv);
                env.tally.exhaustive = stride == 1;
                env.tally.notes.insert("stride".into(), json!(stride));
                // all lattice points explicitly, in every lane position
                if env.shard == 0 {
                    let sp = lattice::f32_specials();
                    for (i, p) in sp.iter().enumerate() {
                        for l in 0..N {
                            let mut w = [0x3fc0_0000u64; N];
                            w[l] = *p as u64;
                            w[(l + 1) % N] = sp[(i * 7 + 3) % sp.len()] as u64;
                            env.tally.eval(1);
                            env.tally.nontrivial_enum(1);
                            if !env.direct(&w, &chk) {
                                return;
                            }
                        }
                    }
                }
            },
            chk,
        ));
    }};
}

pub fn subs<'a>(_args: &Args) -> Vec<SubCheck<'a>> {
    let mut out = vec![];
    vec2::subs(&mut out);
    vec3::subs(&mut out);
    vec3a::subs(&mut out);
    vec4::subs(&mut out);
    dvec2::subs(&mut out);
    dvec3::subs(&mut out);
    dvec4::subs(&mut out);
    if VARIANT != "libm" {
        sweep!(vec4, out, 16);
        sweep!(vec3a, out, 16);
    }
    if VARIANT == "scalar" {
        sweep!(vec2, out, 8);
        sweep!(vec3, out, 8);
    }
    out
}
