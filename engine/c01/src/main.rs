//! C01 — element-wise float vector ops equal the per-lane IEEE primitive on every backend.
use vcore::*;

pub trait Fl: Copy + PartialOrd + std::fmt::Debug + 'static {
    const BITS: u32;
    fn fb(w: u64) -> Self;
    fn tb(self) -> u64;
    fn ieq(a: Self, b: Self) -> bool;
    fn isnan(self) -> bool;
    fn exp_ref(self, libm: bool) -> Self;
    fn powf_ref(self, n: Self, libm: bool) -> Self;
}
impl Fl for f32 {
    const BITS: u32 = 32;
    #[inline] fn fb(w: u64) -> f32 { f32::from_bits(w as u32) }
    #[inline] fn tb(self) -> u64 { self.to_bits() as u64 }
    #[inline] fn ieq(a: f32, b: f32) -> bool { (a.is_nan() && b.is_nan()) || a == b }
    #[inline] fn isnan(self) -> bool { self.is_nan() }
    #[inline] fn exp_ref(self, l: bool) -> f32 { if l { libm::expf(self) } else { self.exp() } }
    #[inline] fn powf_ref(self, n: f32, l: bool) -> f32 { if l { libm::powf(self, n) } else { self.powf(n) } }
}
impl Fl for f64 {
    const BITS: u32 = 64;
    #[inline] fn fb(w: u64) -> f64 { f64::from_bits(w) }
    #[inline] fn tb(self) -> u64 { self.to_bits() }
    #[inline] fn ieq(a: f64, b: f64) -> bool { (a.is_nan() && b.is_nan()) || a == b }
    #[inline] fn isnan(self) -> bool { self.is_nan() }
    #[inline] fn exp_ref(self, l: bool) -> f64 { if l { libm::exp(self) } else { self.exp() } }
    #[inline] fn powf_ref(self, n: f64, l: bool) -> f64 { if l { libm::pow(self, n) } else { self.powf(n) } }
}

mod simd {
    pub const VARIANT: &str = "simd";
    pub const LIBM: bool = false;
    use ::glam_simd as glam;
    include!("suite.rs");
}
mod scalar {
    pub const VARIANT: &str = "scalar";
    pub const LIBM: bool = false;
    use ::glam_scalar as glam;
    include!("suite.rs");
}
mod libmv {
    pub const VARIANT: &str = "libm";
    pub const LIBM: bool = true;
    use ::glam_libm as glam;
    include!("suite.rs");
}
/// the lane-wise checks with `glam-assert` compiled in (clamp's bounds are sorted per lane, equal bounds included, so
/// no documented precondition is violated): a panic there is a failure
#[cfg(not(feature = "core"))]
mod asserting {
    pub const VARIANT: &str = "simd+glam-assert";
    pub const LIBM: bool = false;
    use ::glam_assert as glam;
    include!("suite.rs");
}
#[cfg(not(feature = "core"))]
mod scalar_asserting {
    pub const VARIANT: &str = "scalar+glam-assert";
    pub const LIBM: bool = false;
    use ::glam_scalar_assert as glam;
    include!("suite.rs");
}
#[cfg(feature = "core")]
mod core_asserting {
    pub const VARIANT: &str = "core+glam-assert";
    pub const LIBM: bool = false;
    use ::glam_core_assert as glam;
    include!("suite.rs");
}
#[cfg(feature = "core")]
mod core_simd {
    pub const VARIANT: &str = "core";
    pub const LIBM: bool = false;
    use ::glam_core as glam;
    include!("suite.rs");
}

fn main() {
    let args = Args::parse();
    let mut subs = vec![];
    #[cfg(not(feature = "core"))]
    {
        subs.extend(simd::subs(&args));
        subs.extend(scalar::subs(&args));
        subs.extend(libmv::subs(&args));
        subs.extend(asserting::subs(&args).into_iter().filter(|s| s.name.starts_with("lanewise/")).map(|s| s.with_div(2)));
        subs.extend(scalar_asserting::subs(&args).into_iter().filter(|s| s.name.starts_with("lanewise/")).map(|s| s.with_div(4)));
    }
    #[cfg(feature = "core")]
    {
        subs.extend(core_simd::subs(&args));
        subs.extend(core_asserting::subs(&args).into_iter().filter(|s| s.name.starts_with("lanewise/")).map(|s| s.with_div(4)));
    }
    let code = main_with("C01", "see MANIFEST / evidence rule", &args, subs);
    std::process::exit(code);
}
